//go:build verifsim_futex && !verifsim_spin

package simrt

import (
	"syscall"
	"unsafe"
)

// parker (futex version): used in -race builds. The token is handed over with
// raw futex system calls on a plain word inside //go:norace functions, so the
// race detector sees no happens-before edge from scheduling (DESIGN.md §7).
type parker struct{ w uint32 }

const (
	futexWait = 0 | 128 // FUTEX_WAIT | FUTEX_PRIVATE_FLAG
	futexWake = 1 | 128
)

func newParker() *parker { return &parker{} }

//go:norace
func (p *parker) park() {
	for p.w == 0 {
		syscall.Syscall6(syscall.SYS_FUTEX, uintptr(unsafe.Pointer(&p.w)), futexWait, 0, 0, 0, 0)
	}
	p.w = 0
}

//go:norace
func (p *parker) unpark() {
	p.w = 1
	syscall.Syscall6(syscall.SYS_FUTEX, uintptr(unsafe.Pointer(&p.w)), futexWake, 1, 0, 0, 0)
}

// ParkerKind names the token hand-off mechanism of this build.
const ParkerKind = "futex"
