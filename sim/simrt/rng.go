package simrt

// rng is a small xorshift64* generator whose state is only touched from
// //go:norace functions (the scheduler's choices must not create or need
// happens-before edges).
type rng struct{ s uint64 }

//go:norace
func (r *rng) seed(v uint64) {
	// splitmix to avoid weak seeds
	v += 0x9E3779B97F4A7C15
	v = (v ^ (v >> 30)) * 0xBF58476D1CE4E5B9
	v = (v ^ (v >> 27)) * 0x94D049BB133111EB
	v ^= v >> 31
	if v == 0 {
		v = 0x2545F4914F6CDD1D
	}
	r.s = v
}

//go:norace
func (r *rng) next() uint64 {
	x := r.s
	x ^= x >> 12
	x ^= x << 25
	x ^= x >> 27
	r.s = x
	return x * 0x2545F4914F6CDD1D
}

//go:norace
func (r *rng) intn(n int) int {
	if n <= 1 {
		return 0
	}
	return int((r.next() >> 11) % uint64(n))
}
