// Package satomic replaces package sync/atomic in instrumented code: the real
// operation behind a scheduling point.
package satomic

import (
	"sync/atomic"
	"unsafe"

	"verifsim/simrt"
)

func y() { simrt.Yield("atomic") }

type Value = atomic.Value

type Int32 struct{ v atomic.Int32 }

func (a *Int32) Load() int32                    { y(); return a.v.Load() }
func (a *Int32) Store(x int32)                  { y(); a.v.Store(x); yw() }
func (a *Int32) Swap(x int32) int32             { y(); return w(a.v.Swap(x)) }
func (a *Int32) Add(x int32) int32              { y(); return w(a.v.Add(x)) }
func (a *Int32) CompareAndSwap(o, n int32) bool { y(); return cas(a.v.CompareAndSwap(o, n)) }

type Uint32 struct{ v atomic.Uint32 }

func (a *Uint32) Load() uint32                    { y(); return a.v.Load() }
func (a *Uint32) Store(x uint32)                  { y(); a.v.Store(x); yw() }
func (a *Uint32) Swap(x uint32) uint32            { y(); return w(a.v.Swap(x)) }
func (a *Uint32) Add(x uint32) uint32             { y(); return w(a.v.Add(x)) }
func (a *Uint32) CompareAndSwap(o, n uint32) bool { y(); return cas(a.v.CompareAndSwap(o, n)) }

type Uint64 struct{ v atomic.Uint64 }

func (a *Uint64) Load() uint64                    { y(); return a.v.Load() }
func (a *Uint64) Store(x uint64)                  { y(); a.v.Store(x); yw() }
func (a *Uint64) Swap(x uint64) uint64            { y(); return w(a.v.Swap(x)) }
func (a *Uint64) Add(x uint64) uint64             { y(); return w(a.v.Add(x)) }
func (a *Uint64) CompareAndSwap(o, n uint64) bool { y(); return cas(a.v.CompareAndSwap(o, n)) }

type Int64 struct{ v atomic.Int64 }

func (a *Int64) Load() int64                    { y(); return a.v.Load() }
func (a *Int64) Store(x int64)                  { y(); a.v.Store(x); yw() }
func (a *Int64) Swap(x int64) int64             { y(); return w(a.v.Swap(x)) }
func (a *Int64) Add(x int64) int64              { y(); return w(a.v.Add(x)) }
func (a *Int64) CompareAndSwap(o, n int64) bool { y(); return cas(a.v.CompareAndSwap(o, n)) }

type Uintptr struct{ v atomic.Uintptr }

func (a *Uintptr) Load() uintptr                    { y(); return a.v.Load() }
func (a *Uintptr) Store(x uintptr)                  { y(); a.v.Store(x); yw() }
func (a *Uintptr) Swap(x uintptr) uintptr           { y(); return w(a.v.Swap(x)) }
func (a *Uintptr) Add(x uintptr) uintptr            { y(); return w(a.v.Add(x)) }
func (a *Uintptr) CompareAndSwap(o, n uintptr) bool { y(); return cas(a.v.CompareAndSwap(o, n)) }

type Bool struct{ v atomic.Bool }

func (a *Bool) Load() bool                    { y(); return a.v.Load() }
func (a *Bool) Store(x bool)                  { y(); a.v.Store(x); yw() }
func (a *Bool) Swap(x bool) bool              { y(); return w(a.v.Swap(x)) }
func (a *Bool) CompareAndSwap(o, n bool) bool { y(); return cas(a.v.CompareAndSwap(o, n)) }

type Pointer[T any] struct{ v atomic.Pointer[T] }

func (a *Pointer[T]) Load() *T                    { y(); return a.v.Load() }
func (a *Pointer[T]) Store(x *T)                  { y(); a.v.Store(x); yw() }
func (a *Pointer[T]) Swap(x *T) *T                { y(); return w(a.v.Swap(x)) }
func (a *Pointer[T]) CompareAndSwap(o, n *T) bool { y(); return cas(a.v.CompareAndSwap(o, n)) }

func cas(ok bool) bool {
	if !ok {
		if s := simrt.Active(); s != nil {
			s.Count("probe:cas-failed")
		}
		return false
	}
	yw()
	return true
}

// yw is the scheduling point after an atomic write: other tasks may observe
// the new value before the writer executes its next statement.
func yw() { simrt.Yield("atomic.after") }

func w[T any](v T) T { yw(); return v }

// function-style API
func AddInt32(p *int32, d int32) int32      { y(); return w(atomic.AddInt32(p, d)) }
func AddInt64(p *int64, d int64) int64      { y(); return w(atomic.AddInt64(p, d)) }
func AddUint32(p *uint32, d uint32) uint32  { y(); return w(atomic.AddUint32(p, d)) }
func AddUint64(p *uint64, d uint64) uint64  { y(); return w(atomic.AddUint64(p, d)) }
func LoadInt32(p *int32) int32              { y(); return atomic.LoadInt32(p) }
func LoadInt64(p *int64) int64              { y(); return atomic.LoadInt64(p) }
func LoadUint32(p *uint32) uint32           { y(); return atomic.LoadUint32(p) }
func LoadUint64(p *uint64) uint64           { y(); return atomic.LoadUint64(p) }
func StoreInt32(p *int32, v int32)          { y(); atomic.StoreInt32(p, v); yw() }
func StoreInt64(p *int64, v int64)          { y(); atomic.StoreInt64(p, v); yw() }
func StoreUint32(p *uint32, v uint32)       { y(); atomic.StoreUint32(p, v); yw() }
func StoreUint64(p *uint64, v uint64)       { y(); atomic.StoreUint64(p, v); yw() }
func SwapInt32(p *int32, v int32) int32     { y(); return w(atomic.SwapInt32(p, v)) }
func SwapInt64(p *int64, v int64) int64     { y(); return w(atomic.SwapInt64(p, v)) }
func SwapUint32(p *uint32, v uint32) uint32 { y(); return w(atomic.SwapUint32(p, v)) }
func SwapUint64(p *uint64, v uint64) uint64 { y(); return w(atomic.SwapUint64(p, v)) }
func CompareAndSwapInt32(p *int32, o, n int32) bool {
	y()
	return cas(atomic.CompareAndSwapInt32(p, o, n))
}
func CompareAndSwapInt64(p *int64, o, n int64) bool {
	y()
	return cas(atomic.CompareAndSwapInt64(p, o, n))
}
func CompareAndSwapUint32(p *uint32, o, n uint32) bool {
	y()
	return cas(atomic.CompareAndSwapUint32(p, o, n))
}
func CompareAndSwapUint64(p *uint64, o, n uint64) bool {
	y()
	return cas(atomic.CompareAndSwapUint64(p, o, n))
}
func LoadPointer(p *unsafe.Pointer) unsafe.Pointer     { y(); return atomic.LoadPointer(p) }
func StorePointer(p *unsafe.Pointer, v unsafe.Pointer) { y(); atomic.StorePointer(p, v); yw() }
func CompareAndSwapPointer(p *unsafe.Pointer, o, n unsafe.Pointer) bool {
	y()
	return cas(atomic.CompareAndSwapPointer(p, o, n))
}
