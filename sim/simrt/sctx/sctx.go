// Package sctx holds the simulated versions of the three functions of package
// context that involve the runtime's own goroutines or the real clock:
// AfterFunc (a goroutine the scheduler must own) and WithTimeout/WithDeadline
// (a timer that must read the virtual clock). simgen rewrites calls to them;
// every other use of package context runs the real code.
package sctx

import (
	"context"
	"sync/atomic"
	"time"

	"verifsim/simrt"
	"verifsim/simrt/stime"
)

// AfterFunc is context.AfterFunc with the callback run by a scheduler-owned task.
func AfterFunc(ctx context.Context, f func()) (stop func() bool) {
	s := simrt.Active()
	if s == nil || s.Self() == nil {
		return context.AfterFunc(ctx, f)
	}
	stopCh := make(chan struct{})
	var state atomic.Int32 // 0 armed, 1 running/ran, 2 stopped
	simrt.Yield("context.AfterFunc")
	s.GoDaemon("context.AfterFunc", func() {
		if simrt.Select("context.AfterFunc.wait", simrt.Recv(ctx.Done()), simrt.Recv(stopCh)) == 0 && state.CompareAndSwap(0, 1) {
			f()
		}
	})
	return func() bool {
		simrt.Yield("context.AfterFunc.stop")
		if !state.CompareAndSwap(0, 2) {
			return false
		}
		simrt.Close("context.AfterFunc.stop", stopCh)
		return true
	}
}

// deadlineCtx wraps a cancel context: Done and cancellation propagation
// (parent to it, it to children) are those of the real package, only the
// deadline timer is virtual. Known inexactness: children derived from it report
// context.Canceled instead of context.DeadlineExceeded after a timeout.
type deadlineCtx struct {
	context.Context
	deadline time.Time
	timedOut atomic.Bool
}

func (c *deadlineCtx) Deadline() (time.Time, bool) { return c.deadline, true }

func (c *deadlineCtx) Err() error {
	err := c.Context.Err()
	if err != nil && c.timedOut.Load() {
		return context.DeadlineExceeded
	}
	return err
}

// WithDeadline is context.WithDeadline on the virtual clock.
func WithDeadline(parent context.Context, d time.Time) (context.Context, context.CancelFunc) {
	s := simrt.Active()
	if s == nil || s.Self() == nil {
		return context.WithDeadline(parent, d)
	}
	if cur, ok := parent.Deadline(); ok && cur.Before(d) {
		return context.WithCancel(parent)
	}
	inner, cancel := context.WithCancel(parent)
	c := &deadlineCtx{Context: inner, deadline: d}
	dur := d.Sub(stime.Now())
	if dur <= 0 {
		c.timedOut.Store(true)
		cancel()
		return c, func() { cancel() }
	}
	t := stime.AfterFunc(dur, func() {
		simrt.Yield("context.deadline")
		if inner.Err() == nil {
			c.timedOut.Store(true)
			cancel()
		}
	})
	return c, func() {
		t.Stop()
		cancel()
	}
}

// WithTimeout is context.WithTimeout on the virtual clock.
func WithTimeout(parent context.Context, timeout time.Duration) (context.Context, context.CancelFunc) {
	return WithDeadline(parent, stime.Now().Add(timeout))
}
