package sctx

import (
	"context"
	"testing"
	"time"

	"verifsim/simrt"
	"verifsim/simrt/stime"
)

func TestTimeoutOnVirtualClock(t *testing.T) {
	for seed := uint64(1); seed < 200; seed++ {
		var errAt time.Duration
		var childErr, err error
		var ran, stopped bool
		s := simrt.Run(simrt.Config{Seed: seed}, func(s *simrt.Sim) {
			parent, pcancel := context.WithCancel(context.Background())
			defer pcancel()
			ctx, cancel := WithTimeout(parent, 3*time.Hour)
			defer cancel()
			child, ccancel := context.WithCancel(ctx)
			defer ccancel()
			stop := AfterFunc(child, func() { ran = true })
			stop2 := AfterFunc(parent, func() { t.Error("stopped AfterFunc ran") })
			stopped = stop2()
			start := stime.Now()
			simrt.Recv1("test", ctx.Done())
			errAt = stime.Since(start)
			err, childErr = ctx.Err(), child.Err()
			s.Quiesce()
			if stop() {
				t.Error("stop after run returned true")
			}
			if dl, ok := ctx.Deadline(); !ok || dl.Sub(start) != 3*time.Hour {
				t.Error("deadline", dl, ok)
			}
		})
		if s.Failed != nil || len(s.Panics) > 0 {
			t.Fatal(s.Failed, s.Panics)
		}
		if err != context.DeadlineExceeded || childErr == nil || errAt != 3*time.Hour || !ran || !stopped {
			t.Fatalf("seed %d: err=%v childErr=%v at=%v ran=%v stopped=%v", seed, err, childErr, errAt, ran, stopped)
		}
	}
}
