// Package stime replaces package time in instrumented code: a virtual clock.
package stime

import (
	"time"

	"verifsim/simrt"
)

type Duration = time.Duration
type Time = time.Time
type Month = time.Month
type Weekday = time.Weekday
type Location = time.Location

const (
	Nanosecond  = time.Nanosecond
	Microsecond = time.Microsecond
	Millisecond = time.Millisecond
	Second      = time.Second
	Minute      = time.Minute
	Hour        = time.Hour
	RFC3339     = time.RFC3339
	RFC3339Nano = time.RFC3339Nano
)

var UTC = time.UTC

func Unix(sec, nsec int64) Time                { return time.Unix(sec, nsec) }
func UnixMilli(ms int64) Time                  { return time.UnixMilli(ms) }
func ParseDuration(s string) (Duration, error) { return time.ParseDuration(s) }
func Date(y int, m Month, d, h, mi, s, ns int, l *Location) Time {
	return time.Date(y, m, d, h, mi, s, ns, l)
}

// epoch of the simulated clock
var epoch = time.Unix(1_700_000_000, 0)

// Timer is the simulated time.Timer.
type Timer struct {
	C  <-chan Time
	t  *time.Timer
	st *simrt.SimTimer
}

func (t *Timer) Stop() bool {
	if t.st != nil {
		return t.st.Stop()
	}
	return t.t.Stop()
}

func (t *Timer) Reset(d Duration) bool {
	if t.st != nil {
		return t.st.Reset(int64(d))
	}
	return t.t.Reset(d)
}

func AfterFunc(d Duration, f func()) *Timer {
	if simrt.Active() == nil {
		return &Timer{t: time.AfterFunc(d, f)}
	}
	simrt.Yield("time.AfterFunc")
	return &Timer{st: simrt.NewSimTimer(int64(d), "afterfunc", f)}
}

func NewTimer(d Duration) *Timer {
	if simrt.Active() == nil {
		t := time.NewTimer(d)
		return &Timer{C: t.C, t: t}
	}
	simrt.Yield("time.NewTimer")
	ch := make(chan Time, 1)
	st := simrt.NewSimTimer(int64(d), "timer", func() {
		select {
		case ch <- Now():
		default:
		}
	})
	return &Timer{C: ch, st: st}
}

func After(d Duration) <-chan Time {
	if simrt.Active() == nil {
		return time.After(d)
	}
	return NewTimer(d).C
}

func Sleep(d Duration) {
	s := simrt.Active()
	if s == nil || s.Self() == nil {
		time.Sleep(d)
		return
	}
	simrt.Recv1("time.Sleep", NewTimer(d).C)
}

func Now() Time {
	s := simrt.Active()
	if s == nil {
		return time.Now()
	}
	return epoch.Add(time.Duration(s.Now()))
}

func Since(t Time) Duration { return Now().Sub(t) }
func Until(t Time) Duration { return t.Sub(Now()) }

// Ticker is the simulated time.Ticker (re-armed by its own callback task).
type Ticker struct {
	C    <-chan Time
	t    *time.Ticker
	stop bool
	st   *simrt.SimTimer
}

func NewTicker(d Duration) *Ticker {
	if simrt.Active() == nil {
		t := time.NewTicker(d)
		return &Ticker{C: t.C, t: t}
	}
	ch := make(chan Time, 1)
	tk := &Ticker{C: ch}
	var arm func()
	arm = func() {
		tk.st = simrt.NewSimTimer(int64(d), "ticker", func() {
			if tk.stop {
				return
			}
			select {
			case ch <- Now():
			default:
			}
			arm()
		})
	}
	arm()
	return tk
}

func (t *Ticker) Stop() {
	if t.t != nil {
		t.t.Stop()
		return
	}
	t.stop = true
	if t.st != nil {
		t.st.Stop()
	}
}

func Tick(d Duration) <-chan Time { return NewTicker(d).C }
