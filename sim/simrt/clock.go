package simrt

import (
	"sync/atomic"
)

// SimTimer is a virtual timer.
type SimTimer struct {
	when   int64
	seq    uint64
	f      func()          // AfterFunc callback (runs as a new task)
	fire   func(now int64) // channel timers: non-blocking send performed by the callback task
	active bool
	idx    int
	// edge re-creates the happens-before edge "arm → callback start" that the
	// real runtime timers provide (release at arm, acquire in the callback task).
	edge atomic.Uint32
	name string
}

type timerHeap []*SimTimer

//go:norace
func (h timerHeap) less(i, j int) bool {
	if h[i].when != h[j].when {
		return h[i].when < h[j].when
	}
	return h[i].seq < h[j].seq
}

//go:norace
func (h timerHeap) swap(i, j int) {
	h[i], h[j] = h[j], h[i]
	h[i].idx = i
	h[j].idx = j
}

//go:norace
func (s *Sim) timerPush(t *SimTimer) {
	t.idx = len(s.timers)
	s.timers = append(s.timers, t)
	h := s.timers
	i := t.idx
	for i > 0 {
		p := (i - 1) / 2
		if !h.less(i, p) {
			break
		}
		h.swap(i, p)
		i = p
	}
}

//go:norace
func (s *Sim) timerRemove(t *SimTimer) {
	h := s.timers
	i := t.idx
	n := len(h) - 1
	if i != n {
		h.swap(i, n)
	}
	s.timers = h[:n]
	h = s.timers
	if i < n {
		// sift down then up
		j := i
		for {
			l, r := 2*j+1, 2*j+2
			m := j
			if l < n && h.less(l, m) {
				m = l
			}
			if r < n && h.less(r, m) {
				m = r
			}
			if m == j {
				break
			}
			h.swap(j, m)
			j = m
		}
		for j > 0 {
			p := (j - 1) / 2
			if !h.less(j, p) {
				break
			}
			h.swap(j, p)
			j = p
		}
	}
	t.idx = -1
}

// NewSimTimer arms a timer d nanoseconds from now.
func NewSimTimer(d int64, name string, f func()) *SimTimer {
	s := Active()
	t := &SimTimer{f: f, name: name, idx: -1}
	t.edge.Store(1)
	s.armTimer(t, d)
	return t
}

//go:norace
func (s *Sim) armTimer(t *SimTimer, d int64) {
	if d < 0 {
		d = 0
	}
	s.timerSeq++
	t.when = s.now + d
	t.seq = s.timerSeq
	t.active = true
	s.timerPush(t)
	s.Count("probe:timer-armed")
}

// Stop has the contract of time.Timer.Stop: false if the timer already fired or was stopped.
func (t *SimTimer) Stop() bool {
	Yield("timer.Stop")
	return Active().stopTimer(t)
}

//go:norace
func (s *Sim) stopTimer(t *SimTimer) bool {
	if !t.active {
		s.Count("probe:timer-stop-too-late")
		return false
	}
	t.active = false
	s.timerRemove(t)
	return true
}

// Reset re-arms the timer; returns whether it had been active.
func (t *SimTimer) Reset(d int64) bool {
	Yield("timer.Reset")
	s := Active()
	was := s.stopTimer(t)
	t.edge.Store(1)
	s.armTimer(t, d)
	return was
}

//go:norace
func (s *Sim) fireNextTimer() {
	t := s.timers[0]
	s.timerRemove(t)
	t.active = false
	if t.when > s.now {
		s.now = t.when
	}
	s.Count("probe:timer-fired")
	s.mix(0x7171 ^ t.seq)
	s.spawn("timer:"+t.name, "timer:"+t.name, timerBody(t))
}

func timerBody(t *SimTimer) func() {
	return func() {
		t.edge.Load()
		t.f()
	}
}

// PendingTimers returns the number of armed timers.
//
//go:norace
func (s *Sim) PendingTimers() int { return len(s.timers) }

// NextTimerAt returns the deadline of the earliest armed timer (ok=false if none).
//
//go:norace
func (s *Sim) NextTimerAt() (int64, bool) {
	if len(s.timers) == 0 {
		return 0, false
	}
	return s.timers[0].when, true
}

// Advance moves the virtual clock forward by d ns, firing (as new tasks) every
// timer that becomes due, in deadline order. Called by driver tasks.
//
//go:norace
func (s *Sim) Advance(d int64) {
	target := s.now + d
	for len(s.timers) > 0 && s.timers[0].when <= target {
		s.fireNextTimer()
	}
	s.now = target
}
