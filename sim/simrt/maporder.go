package simrt

import (
	"fmt"
	"reflect"
	"sort"
	"unsafe"
)

// NoteKey records the birth number of a pointer key before it is inserted into
// a map, so that map iteration can be ordered without using addresses.
//
//go:norace
func NoteKey(k any) {
	s := cur
	if s == nil {
		return
	}
	v := reflect.ValueOf(k)
	if v.Kind() != reflect.Pointer {
		return
	}
	p := v.UnsafePointer()
	if _, ok := s.births[p]; !ok {
		s.nextBirth++
		s.births[p] = s.nextBirth
	}
}

//go:norace
func (s *Sim) birth(p unsafe.Pointer) int {
	b, ok := s.births[p]
	if !ok {
		s.nextBirth++
		b = s.nextBirth
		s.births[p] = b
	}
	return b
}

// MapKeys returns the keys of m in a canonical order: natural order for
// strings and integers, birth order for pointers, printed form otherwise.
//
//go:norace
func MapKeys[K comparable, V any](m map[K]V) []K {
	keys := make([]K, 0, len(m))
	for k := range m {
		keys = append(keys, k)
	}
	if len(keys) < 2 {
		return keys
	}
	s := cur
	var zero K
	switch reflect.TypeOf(&zero).Elem().Kind() {
	case reflect.String:
		sort.Slice(keys, func(i, j int) bool { return reflect.ValueOf(keys[i]).String() < reflect.ValueOf(keys[j]).String() })
	case reflect.Int, reflect.Int8, reflect.Int16, reflect.Int32, reflect.Int64:
		sort.Slice(keys, func(i, j int) bool { return reflect.ValueOf(keys[i]).Int() < reflect.ValueOf(keys[j]).Int() })
	case reflect.Uint, reflect.Uint8, reflect.Uint16, reflect.Uint32, reflect.Uint64, reflect.Uintptr:
		sort.Slice(keys, func(i, j int) bool { return reflect.ValueOf(keys[i]).Uint() < reflect.ValueOf(keys[j]).Uint() })
	case reflect.Pointer:
		if s == nil {
			return keys
		}
		sort.Slice(keys, func(i, j int) bool {
			return s.birth(reflect.ValueOf(keys[i]).UnsafePointer()) < s.birth(reflect.ValueOf(keys[j]).UnsafePointer())
		})
	default:
		sort.Slice(keys, func(i, j int) bool { return fmt.Sprint(keys[i]) < fmt.Sprint(keys[j]) })
	}
	return keys
}
