// Package ssync replaces package sync in instrumented code.
package ssync

import (
	"sync"
	"sync/atomic"

	"verifsim/simrt"
)

type Locker = sync.Locker
type Map = sync.Map

// Pool is a deterministic sync.Pool: a last-in-first-out free list that never
// drops an item (one of the behaviours the real pool may show; the real one
// keeps per-P caches and would make runs irreproducible).
type Pool struct {
	New   func() any
	mu    sync.Mutex
	items []any
}

func (p *Pool) Get() any {
	simrt.Yield("pool.Get")
	p.mu.Lock()
	if n := len(p.items); n > 0 {
		x := p.items[n-1]
		p.items = p.items[:n-1]
		p.mu.Unlock()
		return x
	}
	p.mu.Unlock()
	if p.New != nil {
		return p.New()
	}
	return nil
}

func (p *Pool) Put(x any) {
	if x == nil {
		return
	}
	simrt.Yield("pool.Put")
	p.mu.Lock()
	p.items = append(p.items, x)
	p.mu.Unlock()
}

// Mutex is the simulated sync.Mutex.
type Mutex struct{ c simrt.MutexCore }

func (m *Mutex) Lock()         { m.c.Lock() }
func (m *Mutex) Unlock()       { m.c.Unlock() }
func (m *Mutex) TryLock() bool { return m.c.TryLock() }

// RWMutex is the simulated sync.RWMutex: a writer lock plus a reader count
// kept under an internal real mutex; readers and writers wait cooperatively.
type RWMutex struct {
	w       simrt.MutexCore // held by the writer, and briefly by readers to register
	readers atomic.Int32
}

func (m *RWMutex) Lock() {
	m.w.Lock()
	// wait for readers to drain
	if s := simrt.Active(); s != nil && s.Self() != nil {
		s.WaitCond("rwmutex.Lock(readers)", func() bool { return m.readers.Load() == 0 })
		// the condition may have been evaluated by the scheduler: acquire the
		// readers' releases in this goroutine too (RUnlock happens-before Lock)
		m.readers.Load()
	} else {
		for m.readers.Load() != 0 {
		}
	}
}
func (m *RWMutex) Unlock() { m.w.Unlock() }
func (m *RWMutex) TryLock() bool {
	if !m.w.TryLock() {
		return false
	}
	if m.readers.Load() != 0 {
		m.w.Unlock()
		return false
	}
	return true
}
func (m *RWMutex) RLock() {
	m.w.Lock()
	m.readers.Add(1)
	m.w.Unlock()
}
func (m *RWMutex) TryRLock() bool {
	if !m.w.TryLock() {
		return false
	}
	m.readers.Add(1)
	m.w.Unlock()
	return true
}
func (m *RWMutex) RUnlock()        { m.readers.Add(-1) }
func (m *RWMutex) RLocker() Locker { return (*rlocker)(m) }

type rlocker RWMutex

func (r *rlocker) Lock()   { (*RWMutex)(r).RLock() }
func (r *rlocker) Unlock() { (*RWMutex)(r).RUnlock() }

// Once is the simulated sync.Once.
type Once struct {
	done atomic.Bool
	m    Mutex
}

func (o *Once) Do(f func()) {
	simrt.Yield("once.Do")
	if o.done.Load() {
		return
	}
	o.m.Lock()
	defer o.m.Unlock()
	if !o.done.Load() {
		defer o.done.Store(true)
		f()
	}
}

// WaitGroup is the simulated sync.WaitGroup.
type WaitGroup struct {
	n    atomic.Int64
	real sync.WaitGroup
}

func (w *WaitGroup) Add(d int) {
	simrt.Yield("wg.Add")
	w.n.Add(int64(d))
	w.real.Add(d)
}
func (w *WaitGroup) Done() { w.Add(-1) }
func (w *WaitGroup) Wait() {
	if s := simrt.Active(); s != nil && s.Self() != nil {
		simrt.Yield("wg.Wait")
		s.WaitCond("wg.Wait(blocked)", func() bool { return w.n.Load() <= 0 })
	}
	w.real.Wait()
}

// OnceFunc / OnceValue are passed through to the simulated Once.
func OnceFunc(f func()) func() {
	var o Once
	return func() { o.Do(f) }
}

// Cond is the simulated sync.Cond. Signal wakes every waiter (a legal
// over-approximation for code that re-checks its condition in a loop, as the
// sync.Cond documentation requires).
type Cond struct {
	L   Locker
	gen atomic.Uint64
}

func NewCond(l Locker) *Cond { return &Cond{L: l} }

func (c *Cond) Wait() {
	s := simrt.Active()
	if s == nil || s.Self() == nil {
		panic("ssync.Cond.Wait outside a simulation is not supported")
	}
	g := c.gen.Load()
	c.L.Unlock()
	s.WaitCond("cond.Wait", func() bool { return c.gen.Load() != g })
	c.L.Lock()
}

func (c *Cond) Signal()    { simrt.Yield("cond.Signal"); c.gen.Add(1) }
func (c *Cond) Broadcast() { simrt.Yield("cond.Broadcast"); c.gen.Add(1) }

// OnceValue / OnceValues mirror the sync helpers on top of the simulated Once.
func OnceValue[T any](f func() T) func() T {
	var o Once
	var v T
	return func() T { o.Do(func() { v = f() }); return v }
}

func OnceValues[T1, T2 any](f func() (T1, T2)) func() (T1, T2) {
	var o Once
	var a T1
	var b T2
	return func() (T1, T2) { o.Do(func() { a, b = f() }); return a, b }
}
