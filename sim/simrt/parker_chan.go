//go:build !verifsim_futex && !verifsim_spin

package simrt

// parker (channel version): used in ordinary builds.
type parker struct{ ch chan struct{} }

func newParker() *parker  { return &parker{ch: make(chan struct{}, 1)} }
func (p *parker) park()   { <-p.ch }
func (p *parker) unpark() { p.ch <- struct{}{} }

// ParkerKind names the token hand-off mechanism of this build.
const ParkerKind = "chan"
