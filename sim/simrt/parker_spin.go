//go:build verifsim_spin

package simrt

import "runtime"

// parker (spin version): for -race builds run with GOMAXPROCS=1. A parked task
// yields the processor in a loop until its word is set; the word is a plain
// variable touched only from //go:norace functions and runtime.Gosched carries
// no race annotation, so the race detector sees no happens-before edge from
// scheduling (DESIGN.md §7). With one P the Go scheduler round-robins the
// spinning goroutines, so a hand-off costs a few context switches.
type parker struct{ w uint32 }

func newParker() *parker { return &parker{} }

//go:norace
func (p *parker) park() {
	for p.w == 0 {
		runtime.Gosched()
	}
	p.w = 0
}

//go:norace
func (p *parker) unpark() { p.w = 1 }

// ParkerKind names the token hand-off mechanism of this build.
const ParkerKind = "spin"
