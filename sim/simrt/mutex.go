package simrt

import "sync"

// MutexCore is the simulated mutex: a real sync.Mutex (so that the race
// detector sees the program's true happens-before edges) plus a shadow flag the
// scheduler reads to decide whether a blocked locker is runnable.
type MutexCore struct {
	real   sync.Mutex
	locked bool
}

//go:norace
func (m *MutexCore) free() bool { return !m.locked }

//go:norace
func (m *MutexCore) isLocked() bool { return m.locked }

//go:norace
func (m *MutexCore) setLocked(v bool) { m.locked = v }

//go:norace
func (s *Sim) blockOnMutex(m *MutexCore, site string) {
	t := s.running
	if t.killed {
		panic(killSentinel)
	}
	t.state = stBlockedMutex
	t.mu = m
	t.site = site
	t.switchOut()
	t.mu = nil
}

// Lock acquires the mutex; a scheduling point precedes the attempt.
func (m *MutexCore) Lock() {
	s := Active()
	if s == nil || s.Self() == nil {
		m.real.Lock()
		m.setLocked(true)
		return
	}
	Yield("mutex.Lock")
	for !m.real.TryLock() {
		s.Count("probe:mutex-contended")
		s.blockOnMutex(m, "mutex.Lock(blocked)")
	}
	m.setLocked(true)
}

// TryLock tries to acquire the mutex; a scheduling point precedes the attempt.
func (m *MutexCore) TryLock() bool {
	if s := Active(); s != nil && s.Self() != nil {
		Yield("mutex.TryLock")
	}
	if m.real.TryLock() {
		m.setLocked(true)
		return true
	}
	if s := Active(); s != nil {
		s.Count("probe:trylock-failed")
	}
	return false
}

// Unlock releases the mutex; a scheduling point follows the release (a real
// goroutine can be preempted right after an unlock, which matters for code
// that goes on to read shared state without the lock).
func (m *MutexCore) Unlock() {
	if s := Active(); s != nil && !m.isLocked() {
		if s.Ended() {
			// a task that was blocked in Lock is being unwound at the end of the
			// run and one of its deferred Unlock calls has nothing to release
			return
		}
		// the real runtime aborts the program here; report it as a panic of the task
		panic("sync: unlock of unlocked mutex")
	}
	m.setLocked(false)
	m.real.Unlock()
	if s := Active(); s != nil && s.Self() != nil && !s.Ended() {
		Yield("mutex.Unlock")
	}
}
