package simrt

import (
	"reflect"
	"unsafe"
)

// hchanHdr mirrors the first fields of runtime.hchan (go1.22–go1.26). The
// layout is verified by SelfTestChanLayout at worker start-up.
type hchanHdr struct {
	qcount   uint
	dataqsiz uint
	buf      unsafe.Pointer
	elemsize uint16
	_        uint16
	closed   uint32
}

//go:norace
func chanPtr[T any](ch <-chan T) unsafe.Pointer {
	return *(*unsafe.Pointer)(unsafe.Pointer(&ch))
}

//go:norace
func chanPtrS[T any](ch chan<- T) unsafe.Pointer {
	return *(*unsafe.Pointer)(unsafe.Pointer(&ch))
}

//go:norace
func peekRecvReady(hc unsafe.Pointer) bool {
	if hc == nil {
		return false
	}
	h := (*hchanHdr)(hc)
	return h.closed != 0 || h.qcount > 0
}

//go:norace
func peekSendReady(hc unsafe.Pointer) bool {
	if hc == nil {
		return false
	}
	h := (*hchanHdr)(hc)
	return h.closed != 0 || h.qcount < h.dataqsiz
}

// SelfTestChanLayout checks the assumed channel header layout against real channels.
func SelfTestChanLayout() bool {
	a := make(chan int, 3)
	if peekRecvReady(chanPtr[int](a)) || !peekSendReady(chanPtrS[int](a)) {
		return false
	}
	a <- 1
	if !peekRecvReady(chanPtr[int](a)) {
		return false
	}
	a <- 1
	a <- 1
	if peekSendReady(chanPtrS[int](a)) {
		return false
	}
	<-a
	<-a
	<-a
	if peekRecvReady(chanPtr[int](a)) {
		return false
	}
	b := make(chan struct{})
	if peekRecvReady(chanPtr[struct{}](b)) || peekSendReady(chanPtrS[struct{}](b)) {
		return false
	}
	close(b)
	if !peekRecvReady(chanPtr[struct{}](b)) {
		return false
	}
	var c chan error
	if peekRecvReady(chanPtr[error](c)) {
		return false
	}
	d := make(chan error, 1)
	close(d)
	return peekRecvReady(chanPtr[error](d))
}

// Case is one communication clause of a simulated select.
type Case struct {
	hc     unsafe.Pointer
	isSend bool
	try    func() bool // performs the operation without blocking; false if it would block
	chAny  any         // for passthrough (reflect.Select)
	sendV  any
	deliv  func(v reflect.Value, ok bool)
}

//go:norace
func (c *Case) ready() bool {
	if c.isSend {
		return peekSendReady(c.hc)
	}
	return peekRecvReady(c.hc)
}

// Recv is a receive clause whose value is discarded.
func Recv[T any](ch <-chan T) Case {
	return Case{hc: chanPtr(ch), chAny: ch, try: func() bool {
		select {
		case <-ch:
			return true
		default:
			return false
		}
	}}
}

// RecvOf holds the result of a receive clause that binds variables.
type RecvOf[T any] struct {
	ch <-chan T
	V  T
	OK bool
}

// Holder creates the result holder for `case v, ok := <-ch`.
func Holder[T any](ch <-chan T) *RecvOf[T] { return &RecvOf[T]{ch: ch} }

// Case returns the select clause of the holder.
func (h *RecvOf[T]) Case() Case {
	return Case{hc: chanPtr(h.ch), chAny: h.ch, try: func() bool {
		select {
		case v, ok := <-h.ch:
			h.V, h.OK = v, ok
			return true
		default:
			return false
		}
	}, deliv: func(v reflect.Value, ok bool) {
		h.OK = ok
		if v.IsValid() {
			h.V, _ = v.Interface().(T)
		}
	}}
}

// SendCase is a send clause.
func SendCase[T any](ch chan<- T, v T) Case {
	return Case{hc: chanPtrS(ch), isSend: true, chAny: ch, sendV: v, try: func() bool {
		select {
		case ch <- v:
			return true
		default:
			return false
		}
	}}
}

func selectPassthrough(cases []Case) int {
	sc := make([]reflect.SelectCase, len(cases))
	for i, c := range cases {
		if c.isSend {
			sc[i] = reflect.SelectCase{Dir: reflect.SelectSend, Chan: reflect.ValueOf(c.chAny), Send: reflect.ValueOf(c.sendV)}
		} else {
			sc[i] = reflect.SelectCase{Dir: reflect.SelectRecv, Chan: reflect.ValueOf(c.chAny)}
		}
	}
	i, v, ok := reflect.Select(sc)
	if cases[i].deliv != nil {
		cases[i].deliv(v, ok)
	}
	return i
}

// Select is a blocking select (no default clause): the scheduler decides when a
// clause is ready and, among several ready ones, which is taken.
func Select(site string, cases ...Case) int {
	s := Active()
	if s == nil {
		return selectPassthrough(cases)
	}
	Yield(site)
	return s.selectBlocking(site, cases)
}

//go:norace
func (s *Sim) selectBegin(t *Task, site string, cases []Case) (idx int, ready bool) {
	nready := 0
	for i := range cases {
		if cases[i].ready() {
			nready++
		}
	}
	if nready == 0 {
		t.cases = cases
		t.committed = -1
		t.state = stBlockedSelect
		t.site = site
		return -1, false
	}
	k := 0
	if nready > 1 {
		k = s.chooseRaw(StreamSched, nready)
		s.Count("probe:select-multi-ready")
	}
	for i := range cases {
		if cases[i].ready() {
			if k == 0 {
				return i, true
			}
			k--
		}
	}
	panic("unreachable")
}

//go:norace
func (s *Sim) selectCommitted(t *Task) int {
	i := t.committed
	t.committed = -1
	t.cases = nil
	return i
}

func (s *Sim) selectBlocking(site string, cases []Case) int {
	t := s.Self()
	for {
		idx, ready := s.selectBegin(t, site, cases)
		if !ready {
			t.switchOut()
			idx = s.selectCommitted(t)
		}
		// the task itself performs the real operation so that the
		// happens-before edge of the receive lands on this goroutine
		if cases[idx].try() {
			return idx
		}
		// a competing receiver was faster: wait again
		s.Count("probe:select-lost-race")
	}
}

// Recv1 is `<-ch`.
func Recv1[T any](site string, ch <-chan T) T {
	if Active() == nil {
		return <-ch
	}
	h := Holder(ch)
	Select(site, h.Case())
	return h.V
}

// Recv2 is `v, ok := <-ch`.
func Recv2[T any](site string, ch <-chan T) (T, bool) {
	if Active() == nil {
		v, ok := <-ch
		return v, ok
	}
	h := Holder(ch)
	Select(site, h.Case())
	return h.V, h.OK
}

// Send is `ch <- v`.
func Send[T any](site string, ch chan<- T, v T) {
	if Active() == nil {
		ch <- v
		return
	}
	Select(site, SendCase(ch, v))
}

// Close is `close(ch)` with a scheduling point in front and one behind (a real
// goroutine can be preempted right after a close, which matters for code that
// publishes through the close and writes the published fields only afterwards).
func Close[T any](site string, ch chan<- T) {
	Yield(site)
	close(ch)
	if s := Active(); s != nil && s.Self() != nil && !s.Ended() {
		Yield(site + "(closed)")
	}
}

// TrySelect is a select with a default clause: returns -1 if no clause is ready.
// The order of probing among ready clauses is a scheduler choice.
func TrySelect(site string, cases ...Case) int {
	s := Active()
	if s == nil {
		for i := range cases {
			if cases[i].try() {
				return i
			}
		}
		return -1
	}
	Yield(site)
	t := s.Self()
	idx, ready := s.selectBegin(t, site, cases)
	if !ready {
		s.selectAbort(t)
		return -1
	}
	if cases[idx].try() {
		return idx
	}
	return -1
}

//go:norace
func (s *Sim) selectAbort(t *Task) {
	t.cases = nil
	t.state = stRunnable
}
