// Package simrt is the deterministic simulation runtime: a cooperative
// one-token scheduler over real goroutines, a virtual clock, a seeded choice
// tape and the entry points that instrumented library code calls instead of
// `go`, `select`, channel operations, sync, sync/atomic and time.
//
// Exactly one task holds the token at any time; a task gives it back only
// inside simrt calls. All scheduler state is touched from //go:norace
// functions so that, in -race builds with the futex parker, the race detector
// sees no happens-before edge created by scheduling (DESIGN.md §7).
package simrt

import (
	"fmt"
	"runtime"
	"strings"
	"sync/atomic"
	"unsafe"
)

// task states
const (
	stRunnable = iota
	stBlockedSelect
	stBlockedMutex
	stBlockedCond
	stBlockedQuiesce
	stDone
)

// Streams of the choice tape.
const (
	StreamPlan = iota
	StreamFault
	StreamSched
	nStreams
)

type killSentinelT struct{}

var killSentinel = &killSentinelT{}

// IsKill reports whether a recovered panic value is the runtime's end-of-run
// kill signal; harness code that recovers panics must re-panic it.
func IsKill(r any) bool { return r == any(killSentinel) }

// Task is one simulated goroutine.
type Task struct {
	ID    int
	Name  string
	s     *Sim
	pk    *parker
	state int
	site  string
	// select bookkeeping
	cases     []Case
	committed int // index of committed case, -1 if none
	// mutex bookkeeping
	mu *MutexCore
	// cond bookkeeping
	cond func() bool
	// pct priority
	prio   int
	killed bool
	steps  int
	daemon bool
	// doneEdge gives Done() join semantics for the race detector: a real
	// atomic store at task exit, a real atomic load when Done() reports true
	// (what a WaitGroup or channel would provide in a real client).
	doneEdge atomic.Uint32
}

// Violation is the first oracle failure of a run.
type Violation struct {
	Oracle string `json:"oracle"`
	Msg    string `json:"msg"`
	Step   int    `json:"step"`
}

// PanicInfo records a panic that escaped a task.
type PanicInfo struct {
	Task  string
	Value string
	Stack string
}

// Config of one simulated run.
type Config struct {
	Seed     uint64
	MaxSteps int
	// Replay: if non-nil the tape is fed instead of the PRNG.
	Replay *Tape
	// Lenient replay: out-of-range or missing entries default to 0.
	Lenient bool
	// KeepLog keeps the last N events (0 = none).
	KeepLog int
	// SpinLimit: consecutive steps by a sole runnable task with no timer pending.
	SpinLimit int
}

// Tape is the recorded sequence of choices, one list per stream.
type Tape struct {
	Plan  []uint32 `json:"plan"`
	Fault []uint32 `json:"fault"`
	Sched []uint32 `json:"sched"`
}

func (t *Tape) stream(i int) *[]uint32 {
	switch i {
	case StreamPlan:
		return &t.Plan
	case StreamFault:
		return &t.Fault
	default:
		return &t.Sched
	}
}

// Sim is one simulated run.
type Sim struct {
	cfg     Config
	tasks   []*Task
	running *Task
	ctl     *parker
	steps   int
	nextID  int

	rng    [nStreams]rng
	rec    Tape
	rpos   [nStreams]int
	replay *Tape

	// strategy
	strat      int
	stickyP    int // permille
	pctChange  []int
	pctNextLow int
	starveID   int

	// time
	now      int64 // ns since epoch
	timers   timerHeap
	timerSeq uint64
	// TimerEarlyPermille: probability (per scheduling step, permille) of firing
	// the earliest pending timer although tasks are runnable.
	TimerEarlyPermille int

	// results
	Failed       *Violation
	Panics       []PanicInfo
	counts       []countEntry
	hash         uint64
	log          []string
	logPos       int
	Trunc        bool
	Stalled      []string // tasks blocked at the end of the run
	quiesceGrace bool
	spinSig      uint64
	spinRun      int
	last         *Task
	SpinHit      string

	// hooks
	OnStep func() // runs on the controller after every step
	// MapOrder birth numbers for pointer keys
	births    map[unsafe.Pointer]int
	nextBirth int

	ended      bool
	mapScratch []int
}

// cur is the simulation that is active in this process (one at a time).
var cur *Sim

// Heartbeat counts scheduler steps of the whole process (read by the worker's watchdog).
var Heartbeat atomic.Uint64

// Active returns the running simulation or nil (passthrough).
//
//go:norace
func Active() *Sim { return cur }

const (
	stratWalk = iota
	stratSticky
	stratPCT
	stratStarve
)

var stratNames = []string{"walk", "sticky", "pct", "starve"}

// StrategyName returns the name of the scheduling strategy of this run.
//
//go:norace
func (s *Sim) StrategyName() string {
	if s.replay != nil {
		return "replay"
	}
	n := stratNames[s.strat]
	if s.strat == stratSticky {
		n = fmt.Sprintf("sticky%d", s.stickyP)
	}
	if s.strat == stratPCT {
		n = fmt.Sprintf("pct%d", len(s.pctChange)+1)
	}
	return n
}

// Run executes one simulation: main runs as task 0. It returns when no task
// can make progress any more, a violation was recorded or the step cap was hit.
//
//go:norace
func Run(cfg Config, main func(s *Sim)) *Sim {
	if cur != nil {
		panic("simrt: nested Run")
	}
	if cfg.MaxSteps == 0 {
		cfg.MaxSteps = 20000
	}
	if cfg.SpinLimit == 0 {
		cfg.SpinLimit = 2000
	}
	s := &Sim{cfg: cfg, ctl: newParker(), births: map[unsafe.Pointer]int{}}
	s.hash = 1469598103934665603
	for i := 0; i < nStreams; i++ {
		s.rng[i].seed(cfg.Seed*0x9E3779B97F4A7C15 + uint64(i+1)*0xD1B54A32D192ED03)
	}
	s.replay = cfg.Replay
	s.now = 0
	// strategy (swarm): drawn from the sched rng, not recorded
	r := &s.rng[StreamSched]
	switch r.intn(8) {
	case 0, 1:
		s.strat = stratWalk
	case 2, 3, 4:
		s.strat = stratSticky
		s.stickyP = []int{500, 800, 950}[r.intn(3)]
	case 5, 6:
		s.strat = stratPCT
		d := r.intn(4)
		for i := 0; i < d; i++ {
			s.pctChange = append(s.pctChange, r.intn(400))
		}
	case 7:
		s.strat = stratStarve
		s.starveID = 1 + r.intn(5)
	}
	s.pctNextLow = -1
	if cfg.KeepLog > 0 {
		s.log = make([]string, cfg.KeepLog)
	}
	cur = s
	s.spawn("main", "main", func() { main(s) })
	s.loop()
	s.killAll()
	cur = nil
	return s
}

// ---- task creation ----

//go:norace
func (s *Sim) spawn(name, site string, f func()) *Task {
	t := &Task{ID: s.nextID, Name: name, s: s, pk: newParker(), state: stRunnable, site: site, committed: -1}
	s.nextID++
	if s.strat == stratPCT {
		t.prio = 1000 + s.rng[StreamSched].intn(1000000)
	}
	s.tasks = append(s.tasks, t)
	go taskMain(t, f)
	return t
}

func taskMain(t *Task, f func()) {
	t.pk.park()
	defer taskExit(t)
	if taskKilled(t) {
		return
	}
	f()
}

//go:norace
func taskKilled(t *Task) bool { return t.killed }

//go:norace
func taskExit(t *Task) {
	if r := recover(); r != nil {
		if !IsKill(r) {
			buf := make([]byte, 8192)
			n := runtime.Stack(buf, false)
			t.s.Panics = append(t.s.Panics, PanicInfo{Task: t.Name, Value: fmt.Sprint(r), Stack: string(buf[:n])})
		}
	}
	t.doneEdge.Store(1)
	t.state = stDone
	t.s.ctl.unpark()
}

// Go starts f as a new task. Called by instrumented code in place of `go`.
//
//go:norace
func Go(site string, f func()) {
	s := cur
	if s == nil {
		go f()
		return
	}
	s.spawn(site, site, f)
	Yield(site)
}

// GoNamed starts a named harness task without yielding.
//
//go:norace
func (s *Sim) GoNamed(name string, f func()) *Task {
	return s.spawn(name, name, f)
}

// GoDaemon starts a named task that is not expected to finish (not listed as stalled).
//
//go:norace
func (s *Sim) GoDaemon(name string, f func()) *Task {
	t := s.spawn(name, name, f)
	t.daemon = true
	return t
}

// ---- switching ----

// yieldTo gives the token back to the controller and waits to get it again.
//
//go:norace
func (t *Task) switchOut() {
	s := t.s
	s.ctl.unpark()
	t.pk.park()
	if t.killed {
		panic(killSentinel)
	}
}

// Yield is a scheduling point.
//
//go:norace
func Yield(site string) {
	s := cur
	if s == nil {
		return
	}
	t := s.running
	if t == nil {
		return
	}
	if t.killed {
		panic(killSentinel)
	}
	t.state = stRunnable
	t.site = site
	t.switchOut()
}

// Ended reports whether the run is over (tasks are being killed).
//
//go:norace
func (s *Sim) Ended() bool { return s.ended }

// Self returns the running task.
//
//go:norace
func (s *Sim) Self() *Task { return s.running }

// Steps returns the number of scheduler steps so far (a total order stamp).
//
//go:norace
func (s *Sim) Steps() int { return s.steps }

// ---- the controller ----

//go:norace
func (s *Sim) loop() {
	var runnable []*Task
	for {
		if s.Failed != nil || len(s.Panics) > 0 {
			return
		}
		s.scanBlocked()
		runnable = runnable[:0]
		for _, t := range s.tasks {
			if t.state == stRunnable {
				runnable = append(runnable, t)
			}
		}
		if len(runnable) == 0 {
			if q := s.quiesceWaiter(); q != nil {
				q.state = stRunnable
				// no timer may be fired early between this wake-up and the
				// waiter's next step: it has been promised a quiescent world
				s.quiesceGrace = true
				continue
			}
			if len(s.timers) > 0 {
				s.fireNextTimer()
				continue
			}
			return
		}
		if s.steps >= s.cfg.MaxSteps {
			s.Trunc = true
			return
		}
		if s.TimerEarlyPermille > 0 && len(s.timers) > 0 && !s.quiesceGrace {
			if s.chooseRaw(StreamFault, 1000) < s.TimerEarlyPermille {
				s.Count("fault:timer-early")
				s.fireNextTimer()
				continue
			}
		}
		// spin detection: the set of runnable tasks has not changed for
		// SpinLimit consecutive steps (nobody blocked, unblocked, finished or
		// was spawned) and no timer is pending: the runnable tasks are
		// busy-waiting in a world in which nothing else can happen.
		sig := uint64(len(s.tasks))
		for _, t := range runnable {
			sig = sig*1099511628211 ^ uint64(t.ID+1)
		}
		if sig == s.spinSig && len(s.timers) == 0 {
			s.spinRun++
			if s.spinRun >= s.cfg.SpinLimit {
				s.SpinHit = fmt.Sprintf("task %s spins at %s (%d runnable task(s) unchanged for %d steps)", runnable[0].Name, runnable[0].site, len(runnable), s.spinRun)
				return
			}
		} else {
			s.spinSig = sig
			s.spinRun = 0
		}
		t := s.pick(runnable)
		s.quiesceGrace = false
		s.last = t
		s.steps++
		Heartbeat.Add(1)
		t.steps++
		s.mix(uint64(t.ID))
		s.mixs(t.site)
		if s.log != nil {
			s.log[s.logPos%len(s.log)] = fmt.Sprintf("%d t%d(%s) %s", s.steps, t.ID, t.Name, t.site)
			s.logPos++
		}
		s.running = t
		t.pk.unpark()
		s.ctl.park()
		s.running = nil
		if s.OnStep != nil {
			s.OnStep()
		}
	}
}

//go:norace
func (s *Sim) quiesceWaiter() *Task {
	for _, t := range s.tasks {
		if t.state == stBlockedQuiesce {
			return t
		}
	}
	return nil
}

// scanBlocked makes blocked tasks runnable when their wait condition holds.
//
//go:norace
func (s *Sim) scanBlocked() {
	for _, t := range s.tasks {
		switch t.state {
		case stBlockedSelect:
			if t.committed >= 0 {
				t.state = stRunnable
				continue
			}
			nready := 0
			for i := range t.cases {
				if t.cases[i].ready() {
					nready++
				}
			}
			if nready == 0 {
				continue
			}
			k := 0
			if nready > 1 {
				k = s.chooseRaw(StreamSched, nready)
				s.Count("probe:select-multi-ready")
			}
			for i := range t.cases {
				if t.cases[i].ready() {
					if k == 0 {
						t.committed = i
						break
					}
					k--
				}
			}
			t.state = stRunnable
		case stBlockedMutex:
			if t.mu.free() {
				t.state = stRunnable
			}
		case stBlockedCond:
			if t.cond() {
				t.state = stRunnable
			}
		}
	}
}

// pick chooses the next task. Index 0 of the candidate order is always "the
// task that ran last if it is runnable" so that an all-zero schedule tape means
// "no preemption".
//
//go:norace
func (s *Sim) pick(runnable []*Task) *Task {
	n := len(runnable)
	if n == 1 {
		return runnable[0]
	}
	// order: last-run task first
	last := -1
	for i, t := range runnable {
		if t == s.lastRun() {
			last = i
		}
	}
	if last > 0 {
		t := runnable[last]
		copy(runnable[1:last+1], runnable[0:last])
		runnable[0] = t
	}
	var idx int
	if s.replay != nil {
		idx = s.replayNext(StreamSched, n)
	} else {
		r := &s.rng[StreamSched]
		switch s.strat {
		case stratWalk:
			idx = r.intn(n)
		case stratSticky:
			if last >= 0 && r.intn(1000) < s.stickyP {
				idx = 0
			} else {
				idx = r.intn(n)
			}
		case stratPCT:
			for _, c := range s.pctChange {
				if c == s.steps && last >= 0 {
					runnable[0].prio = s.pctNextLow
					s.pctNextLow--
				}
			}
			best := 0
			for i, t := range runnable {
				if t.prio > runnable[best].prio {
					best = i
				}
			}
			idx = best
		case stratStarve:
			// the victim runs only when nothing else can; others walk
			cand := s.mapScratch[:0]
			for i, t := range runnable {
				if t.ID != s.starveID {
					cand = append(cand, i)
				}
			}
			s.mapScratch = cand
			if len(cand) == 0 {
				idx = 0
			} else {
				idx = cand[r.intn(len(cand))]
			}
		}
	}
	s.rec.Sched = append(s.rec.Sched, uint32(idx))
	return runnable[idx]
}

//go:norace
func (s *Sim) lastRun() *Task { return s.last }

// ---- choices ----

//go:norace
func (s *Sim) replayNext(stream, n int) int {
	tp := s.replay.stream(stream)
	pos := s.rpos[stream]
	s.rpos[stream]++
	if pos >= len(*tp) {
		if !s.cfg.Lenient {
			s.Count("replay:exhausted")
		}
		return 0
	}
	v := int((*tp)[pos])
	if v >= n {
		if !s.cfg.Lenient {
			s.Count("replay:out-of-range")
		}
		return 0
	}
	return v
}

// chooseRaw draws from a stream and records the value.
//
//go:norace
func (s *Sim) chooseRaw(stream, n int) int {
	if n <= 1 {
		return 0
	}
	var v int
	if s.replay != nil {
		v = s.replayNext(stream, n)
	} else {
		v = s.rng[stream].intn(n)
	}
	p := s.rec.stream(stream)
	*p = append(*p, uint32(v))
	s.mix(uint64(stream)<<32 | uint64(v))
	return v
}

// Plan draws a workload/plan choice in [0,n).
//
//go:norace
func (s *Sim) Plan(n int) int { return s.chooseRaw(StreamPlan, n) }

// Fault draws a fault choice in [0,n).
//
//go:norace
func (s *Sim) Fault(n int) int { return s.chooseRaw(StreamFault, n) }

// FaultP returns true with probability permille/1000 (a fault choice).
//
//go:norace
func (s *Sim) FaultP(permille int) bool { return s.chooseRaw(StreamFault, 1000) < permille }

// PlanP returns true with probability permille/1000 (a plan choice).
//
//go:norace
func (s *Sim) PlanP(permille int) bool { return s.chooseRaw(StreamPlan, 1000) < permille }

// Recorded returns the recorded tape of this run.
//
//go:norace
func (s *Sim) Recorded() *Tape { return &s.rec }

// ---- results ----

// Fail records the first violation and ends the run.
//
//go:norace
func (s *Sim) Fail(oracle, format string, a ...any) {
	if s.Failed == nil {
		s.Failed = &Violation{Oracle: oracle, Msg: fmt.Sprintf(format, a...), Step: s.steps}
	}
}

// FailNow records the violation and stops the calling task.
//
//go:norace
func (s *Sim) FailNow(oracle, format string, a ...any) {
	s.Fail(oracle, format, a...)
	if s.running != nil {
		panic(killSentinel)
	}
}

type countEntry struct {
	name string
	n    int
}

// Count increments a per-run counter (fault kinds, reach probes). The counters
// live in a small slice (not a map) so that the race detector's map
// instrumentation does not see the scheduler's bookkeeping.
//
//go:norace
func (s *Sim) Count(name string) {
	for i := range s.counts {
		if s.counts[i].name == name {
			s.counts[i].n++
			return
		}
	}
	s.counts = append(s.counts, countEntry{name, 1})
}

// Counter returns the current value of a counter.
//
//go:norace
func (s *Sim) Counter(name string) int {
	for i := range s.counts {
		if s.counts[i].name == name {
			return s.counts[i].n
		}
	}
	return 0
}

// CountsMap returns all counters of the run.
//
//go:norace
func (s *Sim) CountsMap() map[string]int {
	m := make(map[string]int, len(s.counts))
	for _, e := range s.counts {
		m[e.name] = e.n
	}
	return m
}

// Hash returns the event hash of the run.
//
//go:norace
func (s *Sim) Hash() uint64 { return s.hash }

// Mix folds harness-visible events into the event hash.
//
//go:norace
func (s *Sim) Mix(v uint64) { s.mix(v) }

//go:norace
func (s *Sim) mix(v uint64) {
	s.hash ^= v
	s.hash *= 1099511628211
}

//go:norace
func (s *Sim) mixs(v string) {
	h := s.hash
	for i := 0; i < len(v); i++ {
		h ^= uint64(v[i])
		h *= 1099511628211
	}
	s.hash = h
}

// Logf appends a harness event to the ring log (if kept) and the hash.
//
//go:norace
func (s *Sim) Logf(format string, a ...any) {
	if s.log == nil {
		return
	}
	s.log[s.logPos%len(s.log)] = fmt.Sprintf("%d   | ", s.steps) + fmt.Sprintf(format, a...)
	s.logPos++
}

// LogTail returns the kept events in order.
//
//go:norace
func (s *Sim) LogTail() []string {
	if s.log == nil {
		return nil
	}
	var out []string
	n := len(s.log)
	start := 0
	if s.logPos > n {
		start = s.logPos - n
	}
	for i := start; i < s.logPos; i++ {
		out = append(out, s.log[i%n])
	}
	return out
}

// Now returns the virtual time in nanoseconds since the simulated epoch.
//
//go:norace
func (s *Sim) Now() int64 { return s.now }

// ---- end of run ----

//go:norace
func (s *Sim) killAll() {
	s.ended = true
	for _, t := range s.tasks {
		if t.state != stDone && !t.daemon {
			s.Stalled = append(s.Stalled, t.Name+"@"+t.site+":"+stateName(t.state))
		}
	}
	// kill in reverse creation order, one at a time
	for i := len(s.tasks) - 1; i >= 0; i-- {
		t := s.tasks[i]
		if t.state == stDone {
			continue
		}
		t.killed = true
		s.running = t
		t.pk.unpark()
		s.ctl.park()
		for t.state != stDone {
			// a task may have given the token back from a deferred call; push it again
			t.pk.unpark()
			s.ctl.park()
		}
	}
	s.running = nil
}

func stateName(st int) string {
	return [...]string{"runnable", "select", "mutex", "cond", "quiesce", "done"}[st]
}

// StalledString lists tasks that were still blocked when the run ended.
func (s *Sim) StalledString() string { return strings.Join(s.Stalled, ", ") }

// ---- blocking primitives for harness code ----

// Quiesce blocks the calling task until no other task is runnable (timers are
// not fired while a task waits here). It is how the driver finds the points at
// which "nothing else will happen".
//
//go:norace
func (s *Sim) Quiesce() {
	t := s.running
	if t.killed {
		panic(killSentinel)
	}
	t.state = stBlockedQuiesce
	t.site = "quiesce"
	t.switchOut()
}

// WaitCond blocks the calling task until cond() is true (evaluated by the scheduler after every step).
//
//go:norace
func (s *Sim) WaitCond(site string, cond func() bool) {
	t := s.running
	if t.killed {
		panic(killSentinel)
	}
	t.site = site
	if cond() {
		t.state = stRunnable
	} else {
		t.state = stBlockedCond
		t.cond = cond
	}
	t.switchOut()
	t.cond = nil
}

// Blocked reports whether task t is blocked (not runnable, not done).
//
//go:norace
func (t *Task) Blocked() bool { return t.state != stRunnable && t.state != stDone }

// Done reports whether the task has finished.
//
//go:norace
func (t *Task) Done() bool {
	if t.state == stDone {
		t.doneEdge.Load()
		return true
	}
	return false
}

// Site returns the site at which the task last gave up the token.
//
//go:norace
func (t *Task) Site() string { return t.site }
