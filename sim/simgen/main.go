// simgen: spike of the type-aware instrumenter.
package main

import (
	"bytes"
	"fmt"
	"go/ast"
	"go/printer"
	"go/token"
	"go/types"
	"os"
	"path/filepath"
	"strconv"
	"strings"

	"golang.org/x/tools/go/ast/astutil"
	"golang.org/x/tools/go/packages"
)

const rtPath = "verifsim/simrt"

var shim = map[string]string{
	"sync":        "verifsim/simrt/ssync",
	"sync/atomic": "verifsim/simrt/satomic",
	"time":        "verifsim/simrt/stime",
}

type inst struct {
	pkg      *packages.Package
	fset     *token.FileSet
	file     *ast.File
	usedCtx  bool
	usedRT   bool
	tmp      int
	unsupp   []string
	siteBase string
}

func (in *inst) site(pos token.Pos) ast.Expr {
	p := in.fset.Position(pos)
	return &ast.BasicLit{Kind: token.STRING, Value: strconv.Quote(fmt.Sprintf("%s:%d", filepath.Base(p.Filename), p.Line))}
}

func (in *inst) rt(name string) ast.Expr {
	in.usedRT = true
	return &ast.SelectorExpr{X: ast.NewIdent("simrt"), Sel: ast.NewIdent(name)}
}

func (in *inst) fresh(prefix string) *ast.Ident {
	in.tmp++
	return ast.NewIdent(fmt.Sprintf("_sim%s%d", prefix, in.tmp))
}

func (in *inst) typeOf(e ast.Expr) types.Type { return in.pkg.TypesInfo.TypeOf(e) }

func (in *inst) isBuiltin(id *ast.Ident, name string) bool {
	if id.Name != name {
		return false
	}
	_, ok := in.pkg.TypesInfo.Uses[id].(*types.Builtin)
	return ok
}

func isCtx(t types.Type) bool { return t != nil && t.String() == "context.Context" }

// containsCtxRead: expression-level scan (not into func literals / nested blocks).
func (in *inst) containsCtxRead(n ast.Node) bool {
	found := false
	ast.Inspect(n, func(x ast.Node) bool {
		if found {
			return false
		}
		switch v := x.(type) {
		case *ast.FuncLit, *ast.BlockStmt:
			if x != n {
				return false
			}
		case *ast.CallExpr:
			if sel, ok := v.Fun.(*ast.SelectorExpr); ok && (sel.Sel.Name == "Err" || sel.Sel.Name == "Done") && isCtx(in.typeOf(sel.X)) {
				found = true
				return false
			}
			if t := in.typeOf(v.Fun); t != nil && t.String() == "context.CancelFunc" {
				found = true
				return false
			}
		}
		return true
	})
	return found
}

// headOf returns the part of a statement evaluated before any nested block.
func headNodes(s ast.Stmt) []ast.Node {
	switch v := s.(type) {
	case *ast.IfStmt:
		var out []ast.Node
		if v.Init != nil {
			out = append(out, v.Init)
		}
		out = append(out, v.Cond)
		if e, ok := v.Else.(*ast.IfStmt); ok {
			out = append(out, headNodes(e)...)
		}
		return out
	case *ast.ForStmt:
		var out []ast.Node
		if v.Init != nil {
			out = append(out, v.Init)
		}
		if v.Cond != nil {
			out = append(out, v.Cond)
		}
		return out
	case *ast.SwitchStmt:
		var out []ast.Node
		if v.Init != nil {
			out = append(out, v.Init)
		}
		if v.Tag != nil {
			out = append(out, v.Tag)
		}
		return out
	case *ast.BlockStmt, *ast.SelectStmt, *ast.TypeSwitchStmt, *ast.RangeStmt, *ast.LabeledStmt, *ast.GoStmt:
		return nil
	case *ast.DeferStmt:
		return nil
	default:
		return []ast.Node{s}
	}
}

func (in *inst) yieldStmt(pos token.Pos) ast.Stmt {
	return &ast.ExprStmt{X: &ast.CallExpr{Fun: in.rt("Yield"), Args: []ast.Expr{in.site(pos)}}}
}

// insertCtxYields walks statement lists and inserts Yield before statements whose head reads a context.
func (in *inst) insertCtxYields(list []ast.Stmt) []ast.Stmt {
	var out []ast.Stmt
	for _, s := range list {
		need := false
		for _, h := range headNodes(s) {
			if in.containsCtxRead(h) {
				need = true
				break
			}
		}
		if need {
			out = append(out, in.yieldStmt(s.Pos()))
		}
		out = append(out, s)
	}
	return out
}

func (in *inst) rewriteGo(g *ast.GoStmt) ast.Stmt {
	call := g.Call
	var pre []ast.Stmt
	// function literal with no args: direct
	if fl, ok := call.Fun.(*ast.FuncLit); ok && len(call.Args) == 0 {
		return &ast.ExprStmt{X: &ast.CallExpr{Fun: in.rt("Go"), Args: []ast.Expr{in.site(g.Pos()), fl}}}
	}
	// evaluate fun and args now
	fn := in.fresh("f")
	lhs := []ast.Expr{fn}
	rhs := []ast.Expr{call.Fun}
	var args []ast.Expr
	for _, a := range call.Args {
		if bl, ok := a.(*ast.BasicLit); ok {
			args = append(args, bl)
			continue
		}
		if id, ok := a.(*ast.Ident); ok && (id.Name == "true" || id.Name == "false" || id.Name == "nil") {
			args = append(args, id)
			continue
		}
		t := in.fresh("a")
		lhs = append(lhs, t)
		rhs = append(rhs, a)
		args = append(args, t)
	}
	pre = append(pre, &ast.AssignStmt{Lhs: lhs, Tok: token.DEFINE, Rhs: rhs})
	inner := &ast.CallExpr{Fun: fn, Args: args, Ellipsis: call.Ellipsis}
	lit := &ast.FuncLit{Type: &ast.FuncType{Params: &ast.FieldList{}}, Body: &ast.BlockStmt{List: []ast.Stmt{&ast.ExprStmt{X: inner}}}}
	pre = append(pre, &ast.ExprStmt{X: &ast.CallExpr{Fun: in.rt("Go"), Args: []ast.Expr{in.site(g.Pos()), lit}}})
	return &ast.BlockStmt{List: pre}
}

func hasDefault(s *ast.SelectStmt) bool {
	for _, c := range s.Body.List {
		if c.(*ast.CommClause).Comm == nil {
			return true
		}
	}
	return false
}

func (in *inst) rewriteSelect(s *ast.SelectStmt, label *ast.Ident) ast.Stmt {
	withDefault := hasDefault(s)
	var pre []ast.Stmt
	var caseArgs []ast.Expr
	var clauses []ast.Stmt
	ci := 0
	for _, c := range s.Body.List {
		cc := c.(*ast.CommClause)
		if cc.Comm == nil {
			clauses = append(clauses, &ast.CaseClause{List: []ast.Expr{&ast.UnaryExpr{Op: token.SUB, X: &ast.BasicLit{Kind: token.INT, Value: "1"}}}, Body: cc.Body})
			continue
		}
		idx := &ast.BasicLit{Kind: token.INT, Value: strconv.Itoa(ci)}
		ci++
		var body []ast.Stmt
		switch comm := cc.Comm.(type) {
		case *ast.ExprStmt: // <-ch
			ue, ok := comm.X.(*ast.UnaryExpr)
			if !ok || ue.Op != token.ARROW {
				in.unsupp = append(in.unsupp, in.fset.Position(cc.Pos()).String()+": select comm")
				return s
			}
			ch := in.fresh("c")
			pre = append(pre, &ast.AssignStmt{Lhs: []ast.Expr{ch}, Tok: token.DEFINE, Rhs: []ast.Expr{ue.X}})
			caseArgs = append(caseArgs, &ast.CallExpr{Fun: in.rt("Recv"), Args: []ast.Expr{ch}})
		case *ast.AssignStmt: // v := <-ch ; v, ok := <-ch ; v = <-ch
			ue, ok := comm.Rhs[0].(*ast.UnaryExpr)
			if !ok || ue.Op != token.ARROW {
				in.unsupp = append(in.unsupp, in.fset.Position(cc.Pos()).String()+": select comm assign")
				return s
			}
			h := in.fresh("h")
			pre = append(pre, &ast.AssignStmt{Lhs: []ast.Expr{h}, Tok: token.DEFINE, Rhs: []ast.Expr{&ast.CallExpr{Fun: in.rt("Holder"), Args: []ast.Expr{ue.X}}}})
			caseArgs = append(caseArgs, &ast.CallExpr{Fun: &ast.SelectorExpr{X: h, Sel: ast.NewIdent("Case")}})
			rhs := []ast.Expr{&ast.SelectorExpr{X: h, Sel: ast.NewIdent("V")}}
			if len(comm.Lhs) == 2 {
				rhs = append(rhs, &ast.SelectorExpr{X: h, Sel: ast.NewIdent("OK")})
			}
			body = append(body, &ast.AssignStmt{Lhs: comm.Lhs, Tok: comm.Tok, Rhs: rhs})
		case *ast.SendStmt:
			ch := in.fresh("c")
			v := in.fresh("v")
			pre = append(pre, &ast.AssignStmt{Lhs: []ast.Expr{ch, v}, Tok: token.DEFINE, Rhs: []ast.Expr{comm.Chan, comm.Value}})
			caseArgs = append(caseArgs, &ast.CallExpr{Fun: in.rt("SendCase"), Args: []ast.Expr{ch, v}})
		default:
			in.unsupp = append(in.unsupp, in.fset.Position(cc.Pos()).String()+": select comm kind")
			return s
		}
		body = append(body, cc.Body...)
		clauses = append(clauses, &ast.CaseClause{List: []ast.Expr{idx}, Body: body})
	}
	// a select whose cases all terminate is a terminating statement; a switch needs a default for that
	clauses = append(clauses, &ast.CaseClause{List: nil, Body: []ast.Stmt{&ast.ExprStmt{X: &ast.CallExpr{Fun: ast.NewIdent("panic"), Args: []ast.Expr{&ast.BasicLit{Kind: token.STRING, Value: `"simrt: unreachable select case"`}}}}}})
	args := append([]ast.Expr{in.site(s.Pos())}, caseArgs...)
	fn := "Select"
	if withDefault {
		fn = "TrySelect"
	}
	var sw ast.Stmt = &ast.SwitchStmt{Tag: &ast.CallExpr{Fun: in.rt(fn), Args: args}, Body: &ast.BlockStmt{List: clauses}}
	if label != nil {
		sw = &ast.LabeledStmt{Label: label, Stmt: sw}
	}
	pre = append(pre, sw)
	return &ast.BlockStmt{List: pre}
}

func (in *inst) rewriteRange(r *ast.RangeStmt, label *ast.Ident) ast.Stmt {
	t := in.typeOf(r.X)
	if t == nil {
		return r
	}
	switch t.Underlying().(type) {
	case *types.Map:
	case *types.Chan:
		return in.rewriteChanRange(r, label)
	default:
		if label != nil {
			return &ast.LabeledStmt{Label: label, Stmt: r}
		}
		return r
	}
	// for k, v := range m { body }  =>
	// { _m := m; for _, k := range simrt.MapKeys(_m) { v, _ok := _m[k]; if !_ok { continue }; body } }
	m := in.fresh("m")
	pre := &ast.AssignStmt{Lhs: []ast.Expr{m}, Tok: token.DEFINE, Rhs: []ast.Expr{r.X}}
	var keyIdent ast.Expr = in.fresh("k")
	userKey := false
	if r.Key != nil {
		if id, ok := r.Key.(*ast.Ident); !ok || id.Name != "_" {
			keyIdent = r.Key
			userKey = true
		}
	}
	_ = userKey
	okId := in.fresh("ok")
	var valLhs ast.Expr = ast.NewIdent("_")
	if r.Value != nil {
		valLhs = r.Value
	}
	tok := r.Tok
	if tok == token.ILLEGAL {
		tok = token.DEFINE
	}
	lookupTok := token.DEFINE
	var body []ast.Stmt
	if r.Tok == token.ASSIGN {
		// v already declared; declare ok separately
		body = append(body, &ast.DeclStmt{Decl: &ast.GenDecl{Tok: token.VAR, Specs: []ast.Spec{&ast.ValueSpec{Names: []*ast.Ident{okId}, Type: ast.NewIdent("bool")}}}})
		lookupTok = token.ASSIGN
	}
	body = append(body, &ast.AssignStmt{Lhs: []ast.Expr{valLhs, okId}, Tok: lookupTok, Rhs: []ast.Expr{&ast.IndexExpr{X: m, Index: keyIdent}}})
	body = append(body, &ast.IfStmt{Cond: &ast.UnaryExpr{Op: token.NOT, X: okId}, Body: &ast.BlockStmt{List: []ast.Stmt{&ast.BranchStmt{Tok: token.CONTINUE}}}})
	body = append(body, r.Body.List...)
	loop := &ast.RangeStmt{Key: ast.NewIdent("_"), Value: keyIdent, Tok: tok, X: &ast.CallExpr{Fun: in.rt("MapKeys"), Args: []ast.Expr{m}}, Body: &ast.BlockStmt{List: body}}
	if r.Tok == token.ILLEGAL {
		loop.Tok = token.DEFINE
	}
	var ls ast.Stmt = loop
	if label != nil {
		ls = &ast.LabeledStmt{Label: label, Stmt: loop}
	}
	return &ast.BlockStmt{List: []ast.Stmt{pre, ls}}
}

// for x := range ch { body }  =>  { _c := ch; for { x, _ok := simrt.Recv2(site, _c); if !_ok { break }; body } }
func (in *inst) rewriteChanRange(r *ast.RangeStmt, label *ast.Ident) ast.Stmt {
	c := in.fresh("c")
	pre := &ast.AssignStmt{Lhs: []ast.Expr{c}, Tok: token.DEFINE, Rhs: []ast.Expr{r.X}}
	okId := in.fresh("ok")
	var lhs ast.Expr = ast.NewIdent("_")
	tok := token.DEFINE
	var body []ast.Stmt
	if r.Key != nil {
		lhs = r.Key
		if r.Tok == token.ASSIGN {
			body = append(body, &ast.DeclStmt{Decl: &ast.GenDecl{Tok: token.VAR, Specs: []ast.Spec{&ast.ValueSpec{Names: []*ast.Ident{okId}, Type: ast.NewIdent("bool")}}}})
			tok = token.ASSIGN
		}
	}
	body = append(body, &ast.AssignStmt{Lhs: []ast.Expr{lhs, okId}, Tok: tok, Rhs: []ast.Expr{&ast.CallExpr{Fun: in.rt("Recv2"), Args: []ast.Expr{in.site(r.Pos()), c}}}})
	body = append(body, &ast.IfStmt{Cond: &ast.UnaryExpr{Op: token.NOT, X: okId}, Body: &ast.BlockStmt{List: []ast.Stmt{&ast.BranchStmt{Tok: token.BREAK}}}})
	body = append(body, r.Body.List...)
	var loop ast.Stmt = &ast.ForStmt{Body: &ast.BlockStmt{List: body}}
	if label != nil {
		loop = &ast.LabeledStmt{Label: label, Stmt: loop}
	}
	return &ast.BlockStmt{List: []ast.Stmt{pre, loop}}
}

func (in *inst) process() {
	f := in.file
	// pass 1: ctx yields + map-insert NoteKey in statement lists (pre-order so original structure is seen)
	clauseBlocks := map[*ast.BlockStmt]bool{}
	ast.Inspect(f, func(n ast.Node) bool {
		switch v := n.(type) {
		case *ast.SelectStmt:
			clauseBlocks[v.Body] = true
		case *ast.SwitchStmt:
			clauseBlocks[v.Body] = true
		case *ast.TypeSwitchStmt:
			clauseBlocks[v.Body] = true
		}
		return true
	})
	ast.Inspect(f, func(n ast.Node) bool {
		switch v := n.(type) {
		case *ast.BlockStmt:
			if clauseBlocks[v] {
				return true
			}
			v.List = in.insertCtxYields(v.List)
		case *ast.CaseClause:
			v.Body = in.insertCtxYields(v.Body)
		case *ast.CommClause:
			v.Body = in.insertCtxYields(v.Body)
		}
		return true
	})
	// pass 2: structural rewrites, post-order
	inSelectComm := map[ast.Node]bool{}
	ast.Inspect(f, func(n ast.Node) bool {
		if s, ok := n.(*ast.SelectStmt); ok {
			for _, c := range s.Body.List {
				cc := c.(*ast.CommClause)
				if cc.Comm != nil {
					inSelectComm[cc.Comm] = true
					switch comm := cc.Comm.(type) {
					case *ast.ExprStmt:
						inSelectComm[comm.X] = true
					case *ast.AssignStmt:
						inSelectComm[comm.Rhs[0]] = true
					}
				}
			}
		}
		return true
	})
	astutil.Apply(f, nil, func(c *astutil.Cursor) bool {
		switch v := c.Node().(type) {
		case *ast.GoStmt:
			c.Replace(in.rewriteGo(v))
		case *ast.LabeledStmt:
			switch st := v.Stmt.(type) {
			case *ast.SelectStmt:
				c.Replace(in.rewriteSelect(st, v.Label))
			case *ast.RangeStmt:
				c.Replace(in.rewriteRange(st, v.Label))
			}
		case *ast.SelectStmt:
			if _, ok := c.Parent().(*ast.LabeledStmt); ok {
				return true
			}
			c.Replace(in.rewriteSelect(v, nil))
		case *ast.RangeStmt:
			if _, ok := c.Parent().(*ast.LabeledStmt); ok {
				return true
			}
			c.Replace(in.rewriteRange(v, nil))
		case *ast.UnaryExpr:
			if v.Op == token.ARROW && !inSelectComm[v] {
				// standalone receive
				if as, ok := c.Parent().(*ast.AssignStmt); ok && len(as.Lhs) == 2 && len(as.Rhs) == 1 && as.Rhs[0] == v {
					c.Replace(&ast.CallExpr{Fun: in.rt("Recv2"), Args: []ast.Expr{in.site(v.Pos()), v.X}})
				} else {
					c.Replace(&ast.CallExpr{Fun: in.rt("Recv1"), Args: []ast.Expr{in.site(v.Pos()), v.X}})
				}
			}
		case *ast.SendStmt:
			if !inSelectComm[v] {
				c.Replace(&ast.ExprStmt{X: &ast.CallExpr{Fun: in.rt("Send"), Args: []ast.Expr{in.site(v.Pos()), v.Chan, v.Value}}})
			}
		case *ast.CallExpr:
			if id, ok := v.Fun.(*ast.Ident); ok && in.isBuiltin(id, "close") {
				c.Replace(&ast.CallExpr{Fun: in.rt("Close"), Args: []ast.Expr{in.site(v.Pos()), v.Args[0]}})
			}
			// context.AfterFunc / WithTimeout / WithDeadline: goroutine and timer owned by the simulator
			if sel, ok := v.Fun.(*ast.SelectorExpr); ok {
				if fn, ok := in.pkg.TypesInfo.Uses[sel.Sel].(*types.Func); ok && fn.Pkg() != nil && fn.Pkg().Path() == "context" {
					switch fn.Name() {
					case "AfterFunc", "WithTimeout", "WithDeadline":
						in.usedCtx = true
						v.Fun = &ast.SelectorExpr{X: ast.NewIdent("sctx"), Sel: ast.NewIdent(fn.Name())}
					}
				}
			}
		case *ast.AssignStmt:
			// map insert: m[k] = v  → NoteKey(k) before; done as wrapping block
			if len(v.Lhs) == 1 && v.Tok == token.ASSIGN {
				if ix, ok := v.Lhs[0].(*ast.IndexExpr); ok {
					if t := in.typeOf(ix.X); t != nil {
						if _, ism := t.Underlying().(*types.Map); ism {
							if _, inBlock := c.Parent().(*ast.BlockStmt); inBlock {
								c.InsertBefore(&ast.ExprStmt{X: &ast.CallExpr{Fun: in.rt("NoteKey"), Args: []ast.Expr{ix.Index}}})
							}
						}
					}
				}
			}
		}
		return true
	})
	// imports
	for _, imp := range f.Imports {
		p, _ := strconv.Unquote(imp.Path.Value)
		if np, ok := shim[p]; ok {
			name := filepath.Base(p)
			if imp.Name != nil {
				name = imp.Name.Name
			}
			imp.Name = ast.NewIdent(name)
			imp.Path.Value = strconv.Quote(np)
		}
	}
	if in.usedRT {
		astutil.AddNamedImport(in.fset, f, "simrt", rtPath)
	}
	if in.usedCtx {
		astutil.AddNamedImport(in.fset, f, "sctx", rtPath+"/sctx")
	}
}

// DefaultPackages is the set of library packages that are instrumented.
var DefaultPackages = []string{"broadcast", "csync", "routine", "keyed", "refcount", "ccontainer", "promise", "memo", "ccall", "conc", "cqueue", "linkedlist", "iocloser", "iosizer", "ioproxy", "ioseek", "unique", "backoff"}

func fatal(a ...any) {
	fmt.Fprintln(os.Stderr, a...)
	os.Exit(2)
}

func copyFile(src, dst string) {
	b, err := os.ReadFile(src)
	if err != nil {
		fatal("simgen:", err)
	}
	os.MkdirAll(filepath.Dir(dst), 0o755)
	if err := os.WriteFile(dst, b, 0o644); err != nil {
		fatal("simgen:", err)
	}
}

// usage: simgen <repo> <out> <verifsim-dir> [pkg...]
func main() {
	if len(os.Args) < 4 {
		fatal("usage: simgen <repo> <out> <verifsim-dir> [pkg...]")
	}
	repo, out, vsim := os.Args[1], os.Args[2], os.Args[3]
	names := os.Args[4:]
	if len(names) == 0 {
		names = DefaultPackages
	}
	var pats []string
	for _, n := range names {
		if st, err := os.Stat(filepath.Join(repo, n)); err == nil && st.IsDir() {
			pats = append(pats, "./"+n)
		}
	}
	cfg := &packages.Config{
		Mode: packages.NeedName | packages.NeedFiles | packages.NeedSyntax | packages.NeedTypes | packages.NeedTypesInfo | packages.NeedImports | packages.NeedDeps | packages.NeedCompiledGoFiles,
		Dir:  repo,
	}
	pkgs, err := packages.Load(cfg, pats...)
	if err != nil {
		fatal("simgen: load:", err)
	}
	bad := false
	for _, p := range pkgs {
		if len(p.Errors) > 0 {
			fatal("simgen: package errors:", p.Errors)
		}
		// copy test files and other non-Go files verbatim (passthrough suite)
		if len(p.GoFiles) > 0 {
			dir := filepath.Dir(p.GoFiles[0])
			ents, _ := os.ReadDir(dir)
			for _, e := range ents {
				if e.IsDir() {
					continue
				}
				if strings.HasSuffix(e.Name(), "_test.go") {
					rel, _ := filepath.Rel(repo, filepath.Join(dir, e.Name()))
					copyFile(filepath.Join(dir, e.Name()), filepath.Join(out, rel))
				}
			}
		}
		for i, f := range p.Syntax {
			fn := p.CompiledGoFiles[i]
			rel, _ := filepath.Rel(repo, fn)
			if strings.HasSuffix(fn, "_test.go") {
				continue
			}
			in := &inst{pkg: p, fset: p.Fset, file: f}
			f.Comments = nil // drop comments (printer would misplace them around new nodes)
			ast.Inspect(f, func(n ast.Node) bool {
				switch v := n.(type) {
				case *ast.FuncDecl:
					v.Doc = nil
				case *ast.GenDecl:
					v.Doc = nil
				case *ast.Field:
					v.Doc, v.Comment = nil, nil
				case *ast.ValueSpec:
					v.Doc, v.Comment = nil, nil
				case *ast.TypeSpec:
					v.Doc, v.Comment = nil, nil
				case *ast.ImportSpec:
					v.Doc, v.Comment = nil, nil
				case *ast.File:
					v.Doc = nil
				}
				return true
			})
			in.process()
			for _, u := range in.unsupp {
				fmt.Fprintln(os.Stderr, "UNSUPPORTED", u)
				bad = true
			}
			var buf bytes.Buffer
			pc := printer.Config{Mode: printer.SourcePos | printer.TabIndent | printer.UseSpaces, Tabwidth: 8}
			if err := pc.Fprint(&buf, p.Fset, f); err != nil {
				fatal("simgen: print", fn, err)
			}
			dst := filepath.Join(out, rel)
			os.MkdirAll(filepath.Dir(dst), 0o755)
			if err := os.WriteFile(dst, buf.Bytes(), 0o644); err != nil {
				fatal("simgen:", err)
			}
		}
	}
	if bad {
		os.Exit(2)
	}
	// go.mod / go.sum of the instrumented module
	gm, err := os.ReadFile(filepath.Join(repo, "go.mod"))
	if err != nil {
		fatal("simgen:", err)
	}
	gmod := string(gm) + "\nrequire verifsim v0.0.0\nreplace verifsim => " + vsim + "\n"
	if err := os.WriteFile(filepath.Join(out, "go.mod"), []byte(gmod), 0o644); err != nil {
		fatal("simgen:", err)
	}
	s1, _ := os.ReadFile(filepath.Join(repo, "go.sum"))
	s2, _ := os.ReadFile(filepath.Join(vsim, "go.sum"))
	if err := os.WriteFile(filepath.Join(out, "go.sum"), append(append(s1, '\n'), s2...), 0o644); err != nil {
		fatal("simgen:", err)
	}
}
