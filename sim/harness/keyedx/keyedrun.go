package keyedx

import (
	"context"
	"fmt"
	"time"

	ubackoff "github.com/aperturerobotics/util/backoff"
	"github.com/aperturerobotics/util/keyed"
	cbackoff "github.com/cenkalti/backoff/v4"
	"verifsim/harness/core"
	"verifsim/simrt"
	"verifsim/simrt/stime"
)

// incarnation: from a constructor call made while the key was absent until its removal.
type incarnation struct {
	id     int
	key    string
	active int
	dead   bool // removed: nothing of it may run with a live context any more
	insts  []*rinst
}

type rinst struct {
	n        int
	inc      *incarnation
	ctx      context.Context
	tag      int
	entered  int
	returned int
}

// keyedAPI is the part of Keyed / KeyedRefCount the concurrent scenario drives.
type keyedAPI interface {
	SetContext(ctx context.Context, restart bool)
	ClearContext()
	GetKeys() []string
	RemoveKey(key string) bool
	RestartRoutine(key string, conds ...func(string, int) bool) (bool, bool)
	ResetRoutine(key string, conds ...func(string, int) bool) (bool, bool)
	RestartAllRoutines(conds ...func(string, int) bool) (int, int)
	ResetAllRoutines(conds ...func(string, int) bool) (int, int)
}

// runRef is one reference taken by AddKeyRef.
type runRef struct {
	ref      *keyed.KeyedRef[string, int]
	key      string
	inv      int  // stamp taken before AddKeyRef was invoked
	released bool // Release was invoked on it (at least once)
}

type ival struct{ inv, ret int }

// removeKey is RemoveKey with its interval recorded.
func (w *runWorld) removeKey(key string) bool {
	r := &ival{inv: w.c.Tick()}
	w.removes[key] = append(w.removes[key], r)
	existed := w.k.RemoveKey(key)
	r.ret = w.c.Tick()
	return existed
}

type runWorld struct {
	c          *core.Ctx
	k          keyedAPI
	plain      *keyed.Keyed[string, int]
	rcv        *keyed.KeyedRefCount[string, int]
	refs       []*runRef
	ctors      map[string][]ctorRec // constructor calls per key (value returned, stamp)
	rootCancel context.CancelFunc
	nkeys      int
	removes    map[string][]*ival // KeyedRefCount.RemoveKey calls per key (they drop every reference)
	delay      int64
	incOf      map[string]*incarnation // current incarnation per key (updated inside constructor calls, i.e. in lock order)
	nInc       int
	insts      []*rinst
	gates      []chan struct{}
	inReset    map[*simrt.Task]bool
	ctxTag     int
	ctxs       map[int]context.Context
	nextTok    int
}

type ctorRec struct{ tok, at int }

func (w *runWorld) ctor(key string) (keyed.Routine, int) {
	c := w.c
	w.nextTok++
	w.ctors[key] = append(w.ctors[key], ctorRec{w.nextTok, c.Tick()})
	var inc *incarnation
	if w.inReset[c.S.Self()] && w.incOf[key] != nil {
		inc = w.incOf[key] // ResetRoutine: same incarnation, the replacement must wait for the old instance
	} else {
		w.nInc++
		inc = &incarnation{id: w.nInc, key: key}
		w.incOf[key] = inc
	}
	if c.S.PlanP(200) {
		// a constructor that takes a few steps (it runs with the container's lock held)
		core.YieldN("keyedx.ctor", 2)
	}
	if c.S.PlanP(70) {
		// a constructor may return no routine for a key: nothing runs for it, but
		// whatever ran before it for the same key must still be waited for
		c.S.Count("probe:nil-routine")
		return nil, w.nextTok
	}
	return func(ctx context.Context) error {
		in := &rinst{n: len(w.insts) + 1, inc: inc, ctx: ctx, tag: core.Tag(ctx), entered: c.Tick()}
		w.insts = append(w.insts, in)
		inc.insts = append(inc.insts, in)
		c.Pub() // the instance's context is inspected by the drivers' oracles
		if inc.active > 0 {
			c.Fail("C07.K1.two-instances", "key %q: instance %d entered while an earlier instance of the same key (incarnation %d) has not returned", key, in.n, inc.id)
		}
		if inc.dead && ctx.Err() == nil {
			c.Fail("C07.K2.started-after-removal", "key %q: instance %d entered with a live context although its incarnation %d had been removed", key, in.n, inc.id)
		}
		inc.active++
		defer func() {
			inc.active--
			in.returned = c.Tick()
		}()
		beh := c.S.Plan(8)
		k := c.S.Plan(4)
		c.Descf("instance %d (key %q inc %d ctx %d): behaviour %d", in.n, key, inc.id, in.tag, beh)
		switch beh {
		case 0:
			core.YieldN("keyedx.inst", k)
			return nil
		case 1:
			core.YieldN("keyedx.inst", k)
			return fmt.Errorf("k-inst-%d-error", in.n)
		case 2, 3, 4:
			simrt.Recv1("keyedx.inst-run", ctx.Done())
			c.S.Count("probe:instance-cancelled")
			if c.S.PlanP(250) {
				// exit latency in simulated time: overlaps with retry / release-delay timers
				c.S.Count("probe:instance-slow-exit-simtime")
				stime.Sleep([]time.Duration{10 * time.Millisecond, 70 * time.Millisecond, 150 * time.Millisecond}[c.S.Plan(3)])
			} else {
				core.YieldN("keyedx.inst-late", k)
			}
			return ctx.Err()
		case 5:
			g := make(chan struct{})
			w.gates = append(w.gates, g)
			simrt.Recv1("keyedx.inst-deaf", g)
			c.S.Count("probe:instance-deaf")
			return ctx.Err()
		default:
			g := make(chan struct{})
			w.gates = append(w.gates, g)
			if simrt.Select("keyedx.inst-run", simrt.Recv(ctx.Done()), simrt.Recv(g)) == 0 {
				core.YieldN("keyedx.inst-late", k)
				return ctx.Err()
			}
			return fmt.Errorf("k-inst-%d-error", in.n)
		}
	}, w.nextTok
}

// conds draws the optional condition functions of Restart/Reset calls: they
// take a few scheduling steps (the container calls them with its lock held) and
// the call acts if any of them returns true.
func (w *runWorld) conds() []func(string, int) bool {
	c := w.c
	if !c.S.PlanP(400) {
		return nil
	}
	var out []func(string, int) bool
	for n := c.IntRange(1, 2); n > 0; n-- {
		res, k := c.S.PlanP(700), c.S.Plan(3)
		out = append(out, func(string, int) bool {
			c.S.Count("probe:cond-evaluated")
			core.YieldN("keyedx.cond", k)
			return res
		})
	}
	return out
}

func (w *runWorld) maybeGate() {
	if w.c.S.PlanP(250) {
		g := make(chan struct{})
		w.gates = append(w.gates, g)
		simrt.Recv1("keyedx.driver-gate", g)
	}
}

// markDead: the incarnation is removed; every instance of it must have a cancelled context now.
func (w *runWorld) markDead(inc *incarnation, why string) {
	w.c.Sub()
	inc.dead = true
	for _, in := range inc.insts {
		if in.ctx.Err() == nil {
			w.c.Fail("C07.K2.not-cancelled-on-removal", "key %q: %s, but instance %d of the removed incarnation %d still has a live context", inc.key, why, in.n, inc.id)
			return
		}
	}
}

func (w *runWorld) keyStep(id, i int) {
	c := w.c
	me := c.S.Self()
	{
		w.maybeGate()
		key := keysU[c.S.Plan(w.nkeys)]
		k := c.S.Plan(20)
		if i == 0 && c.S.PlanP(700) {
			k = 0 // most scripts start by adding a key
		}
		if w.rcv != nil && k >= 10 && c.S.PlanP(500) {
			k = c.S.Plan(10) // the reference-counted variant concentrates on AddKeyRef / Release / RemoveKey
		}
		switch {
		case k < 5:
			if w.rcv != nil {
				c.Descf("driver %d: AddKeyRef(%q)", id, key)
				rr := &runRef{key: key, inv: c.Tick()}
				var data int
				rr.ref, data, _ = w.rcv.AddKeyRef(key)
				w.refs = append(w.refs, rr)
				// C06: the data is that of the entry that holds the key - the value of the
				// latest constructor call for the key before the call, or of one made during it
				ret := c.Tick()
				ok, last := false, 0
				for _, cr := range w.ctors[key] {
					if cr.at < rr.inv {
						last = cr.tok
					} else if cr.at <= ret && cr.tok == data {
						ok = true
					}
				}
				if !ok && data != last {
					c.Fail("C06.V2.data", "AddKeyRef(%q) returned data %d; the entry for this key carries %d (latest constructor call before the call) and no constructor call during the call returned %d", key, data, last, data)
				}
				c.Pub() // references are released by whichever driver picks them
				break
			}
			c.Descf("driver %d: SetKey(%q)", id, key)
			w.plain.SetKey(key, c.S.PlanP(500))
		case k < 8:
			before := w.incOf[key]
			c.Descf("driver %d: RemoveKey(%q)", id, key)
			existed := w.removeKey(key)
			if existed && w.delay == 0 && before != nil && w.incOf[key] == before {
				c.S.Count("probe:removed")
				w.markDead(before, "RemoveKey returned true")
			}
			if existed && w.delay != 0 && c.S.PlanP(500) {
				// disturb the key while its delayed removal is pending: the removal must
				// still cancel whatever instance is running when the delay expires
				c.S.Count("probe:disturbed-during-release-delay")
				switch c.S.Plan(3) {
				case 0:
					w.k.RestartRoutine(key)
				case 1:
					w.inReset[me] = true
					w.k.ResetRoutine(key)
					w.inReset[me] = false
				default:
					w.removeKey(key)
				}
			}
		case k < 10 && w.rcv != nil:
			// release a reference (possibly one taken by the other driver, possibly twice)
			if len(w.refs) == 0 {
				break
			}
			c.Sub()
			i := c.S.Plan(len(w.refs))
			ref := w.refs[i]
			ref.released = true
			if !c.S.FaultP(300) {
				w.refs = append(w.refs[:i], w.refs[i+1:]...)
			} else {
				c.S.Count("fault:double-release")
			}
			c.Descf("driver %d: KeyedRef.Release", id)
			ref.ref.Release()
		case k < 10:
			n := c.S.Plan(3)
			var keys []string
			for j := 0; j < n; j++ {
				keys = append(keys, keysU[c.S.Plan(len(keysU))])
			}
			before := map[string]*incarnation{}
			for _, kk := range keysU {
				before[kk] = w.incOf[kk]
			}
			c.Descf("driver %d: SyncKeys(%v)", id, keys)
			_, removed := w.plain.SyncKeys(keys, c.S.PlanP(300))
			if w.delay == 0 {
				for _, kk := range removed {
					if before[kk] != nil && w.incOf[kk] == before[kk] {
						c.S.Count("probe:removed")
						w.markDead(before[kk], "SyncKeys reported the key removed")
					}
				}
			}
		case k < 13:
			c.Descf("driver %d: RestartRoutine(%q)", id, key)
			if _, reset := w.k.RestartRoutine(key, w.conds()...); reset {
				c.S.Count("probe:restart-true")
			}
		case k < 15:
			c.Descf("driver %d: ResetRoutine(%q)", id, key)
			w.inReset[me] = true
			_, reset := w.k.ResetRoutine(key, w.conds()...)
			w.inReset[me] = false
			if reset {
				c.S.Count("probe:reset-true")
			}
		case k < 16:
			c.Descf("driver %d: RestartAllRoutines", id)
			w.k.RestartAllRoutines(w.conds()...)
		case k < 17:
			c.Descf("driver %d: ResetAllRoutines", id)
			w.inReset[me] = true
			w.k.ResetAllRoutines(w.conds()...)
			w.inReset[me] = false
		default:
			w.k.GetKeys()
		}
	}
}

func (w *runWorld) ctxStep(i int) {
	c := w.c
	{
		w.maybeGate()
		op := c.S.Plan(6)
		if i == 0 && c.S.PlanP(800) {
			op = 0 // most runs start by giving the container a context
		}
		if w.rootCancel != nil && w.ctxTag != 0 && c.S.FaultP(100) {
			// the owner cancels the context the container was given (the container notices lazily)
			c.Descf("ctx-driver: root-cancel ctx%d", w.ctxTag)
			c.S.Count("fault:root-cancel")
			w.rootCancel()
			w.rootCancel = nil
			return
		}
		switch op {
		case 0, 1, 2:
			tag := len(w.ctxs) + 1
			ctx, cancel := core.TaggedContext(context.Background(), tag)
			w.rootCancel = cancel
			w.ctxs[tag] = ctx
			restart := c.S.PlanP(400)
			inv := c.Tick()
			c.Descf("ctx-driver: SetContext(ctx%d, restart=%v)", tag, restart)
			w.k.SetContext(ctx, restart)
			w.ctxTag = tag
			c.Sub()
			for _, in := range w.insts {
				if in.entered < inv && in.tag != tag && in.ctx.Err() == nil {
					c.Fail("C07.K2.not-cancelled-on-context-change", "SetContext(other) returned, but instance %d (key %q, ctx %d) still has a live context", in.n, in.inc.key, in.tag)
					return
				}
			}
		case 3:
			if w.ctxTag != 0 {
				c.Descf("ctx-driver: SetContext(same, restart=true)")
				w.k.SetContext(w.ctxs[w.ctxTag], true)
			}
		default:
			inv := c.Tick()
			c.Descf("ctx-driver: ClearContext")
			w.k.ClearContext()
			w.ctxTag = 0
			c.Sub()
			for _, in := range w.insts {
				if in.entered < inv && in.ctx.Err() == nil {
					c.Fail("C07.K2.not-cancelled-on-clearcontext", "ClearContext returned, but instance %d (key %q) still has a live context", in.n, in.inc.key)
					return
				}
			}
		}
	}
}

func (w *runWorld) checkQuiescent() {
	c := w.c
	// no timer may fire while the quiescent-point oracles run (GetKeys yields)
	saved := c.S.TimerEarlyPermille
	c.S.TimerEarlyPermille = 0
	defer func() { c.S.TimerEarlyPermille = saved }()
	c.Sub()
	keys := w.k.GetKeys()
	present := map[string]bool{}
	for _, k := range keys {
		present[k] = true
	}
	for _, key := range keysU {
		inc := w.incOf[key]
		if inc != nil && !present[key] && !inc.dead {
			// the key is gone (delayed removal completed): its incarnation is dead
			w.markDead(inc, "the key is no longer in the key set at a quiescent point")
			if c.Failed() {
				return
			}
		}
	}
	// C06: a reference-counted key is present while an unreleased reference exists
	// (RemoveKey drops every reference: a reference is void if a RemoveKey of its
	// key was in flight or invoked after the reference was requested)
	for _, r := range w.refs {
		if r.released || r.ref == nil || present[r.key] {
			continue
		}
		void := false
		for _, rm := range w.removes[r.key] {
			if rm.ret == 0 || rm.ret > r.inv {
				void = true
			}
		}
		if !void {
			c.Fail("C06.R1.referenced-key-absent", "at a quiescent point key %q is not in the key set although a reference to it has not been released and no RemoveKey(%q) was called since it was taken", r.key, r.key)
			return
		}
	}
	c.Sub()
	for _, in := range w.insts {
		if in.returned == 0 && in.ctx.Err() == nil {
			c.S.Count("probe:live-instance-at-quiescence")
			if w.ctxTag == 0 {
				c.Fail("C07.K2.live-without-context", "at a quiescent point instance %d (key %q) has a live context although the context was cleared", in.n, in.inc.key)
				return
			}
			if in.tag != w.ctxTag {
				c.Fail("C07.K2.stale-context", "at a quiescent point instance %d (key %q) derives from context %d, the current context is %d", in.n, in.inc.key, in.tag, w.ctxTag)
				return
			}
		}
	}
}

func runRun(c *core.Ctx) {
	w := &runWorld{c: c, ctors: map[string][]ctorRec{}, removes: map[string][]*ival{}, incOf: map[string]*incarnation{}, inReset: map[*simrt.Task]bool{}, ctxs: map[int]context.Context{}}
	c.PanicOracle = "C07.P.panic"
	var opts []keyed.Option[string, int]
	if c.S.PlanP(400) {
		w.delay = delayNs
		opts = append(opts, keyed.WithReleaseDelay[string, int](time.Duration(w.delay)))
	}
	retry := c.S.PlanP(450)
	if retry && c.S.PlanP(300) {
		// the same interval through the library's own backoff configuration
		opts = append(opts, keyed.WithRetry[string, int](&ubackoff.Backoff{BackoffKind: ubackoff.BackoffKind_BackoffKind_CONSTANT, Constant: &ubackoff.Constant{Interval: uint32(retryNs / 1e6)}}))
	} else if retry {
		opts = append(opts, keyed.WithBackoff[string, int](func(string) cbackoff.BackOff { return &constBackoff{time.Duration(retryNs)} }))
	}
	if c.S.PlanP(400) {
		c.S.TimerEarlyPermille = 30
	}
	if c.S.PlanP(400) {
		// exit callbacks run in the routine's goroutine after the container's lock is dropped
		opts = append(opts, keyed.WithExitCb(func(key string, _ keyed.Routine, data int, err error) {
			c.S.Count("probe:exit-callback")
			simrt.Yield("keyedx.exit-cb")
		}))
	}
	if c.S.PlanP(350) {
		w.rcv = keyed.NewKeyedRefCount(w.ctor, opts...)
		w.k = w.rcv
	} else {
		w.plain = keyed.NewKeyed(w.ctor, opts...)
		w.k = w.plain
	}
	c.Descf("keyedrun: refcount=%v delay=%dms retry=%v timerEarly=%d", w.rcv != nil, w.delay/1e6, retry, c.S.TimerEarlyPermille)
	maxops := 4
	if c.Thorough {
		maxops = 7
	}
	var tasks []*simrt.Task
	nd := c.IntRange(1, 2)
	w.nkeys = len(keysU)
	if w.rcv != nil && c.S.PlanP(500) {
		// reference counting on one hot key with up to three drivers: releases,
		// removals and new references of the same key overlap
		w.nkeys = 1
		nd = c.IntRange(2, 3)
	}
	n0 := c.IntRange(1, 3)
	tasks = append(tasks, c.RelayActor("ctx-driver", n0, w.ctxStep)...)
	for i := 0; i < nd; i++ {
		id, n := i, c.IntRange(1, maxops)
		tasks = append(tasks, c.RelayActor("key-driver", n, func(j int) { w.keyStep(id, j) })...)
	}
	for round := 0; round < 400; round++ {
		c.S.Quiesce()
		if c.Failed() {
			return
		}
		w.checkQuiescent()
		if c.Failed() {
			return
		}
		alldone := true
		for _, t := range tasks {
			if !t.Done() {
				alldone = false
			}
		}
		if len(w.gates) > 0 {
			i := c.S.Plan(len(w.gates))
			g := w.gates[i]
			w.gates = append(w.gates[:i], w.gates[i+1:]...)
			close(g)
			continue
		}
		if c.S.PendingTimers() > 0 && (!alldone || c.S.PlanP(700)) {
			at, _ := c.S.NextTimerAt()
			c.S.Count("fault:time-jump")
			c.S.Advance(at - c.S.Now())
			continue
		}
		if alldone {
			break
		}
		c.Stuck("no event to inject but drivers are not done: %s", c.S.StalledString())
		return
	}
	w.k.ClearContext()
	w.ctxTag = 0
	for i := 0; i < 80; i++ {
		c.S.Quiesce()
		if len(w.gates) == 0 && c.S.PendingTimers() == 0 {
			break
		}
		for _, g := range w.gates {
			close(g)
		}
		w.gates = nil
		// let simulated time pass: instances that take simulated time to exit, stale timers
		if at, ok := c.S.NextTimerAt(); ok {
			c.S.Advance(at - c.S.Now())
		}
	}
	if c.Failed() {
		return
	}
	w.checkQuiescent()
	for _, in := range w.insts {
		if in.returned == 0 {
			c.Fail("C07.K2.running-after-clearcontext", "instance %d of key %q is still running after the final ClearContext", in.n, in.inc.key)
			return
		}
	}
}

func init() {
	core.Register(&core.Scenario{
		Name:  "keyedset",
		Props: []string{"C06", "C07"},
		Run:   runSet,
		NonTrivial: func(n map[string]int) bool {
			return n["probe:re-request-during-pending-removal"] > 0 || n["fault:double-release"] > 0 || n["probe:retry-obligation"] > 0 || n["probe:delayed-removal-armed"] > 0
		},
		Rule: "non-trivial: a key was re-requested while its delayed removal was pending, a delayed removal was armed, a reference was released twice, or a failed routine created a retry obligation",
	})
	core.Register(&core.Scenario{
		Name:  "keyedrun",
		Props: []string{"C06", "C07"},
		Run:   runRun,
		NonTrivial: func(n map[string]int) bool {
			return n["probe:instance-cancelled"]+n["probe:instance-deaf"] > 0 && n["probe:restart-true"]+n["probe:reset-true"]+n["probe:removed"] > 0
		},
		Rule: "non-trivial: at least one instance was cancelled while running (or deaf to it) and a restart, reset or removal of a key took effect",
	})
}
