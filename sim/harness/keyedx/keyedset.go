// Package keyedx: scenarios "keyedset" (C06 and the retry clause of C07: a
// single driver against a reference model of the key set, with release delays,
// reference counting, time jumps placed around pending deadlines and stalled
// timer callbacks) and "keyedrun" (C07: concurrent drivers, slow and deaf
// routines, per-key instance exclusion and cancellation on removal) for
// keyed.Keyed and keyed.KeyedRefCount.
package keyedx

import (
	"context"
	"fmt"
	"sort"
	"time"

	ubackoff "github.com/aperturerobotics/util/backoff"
	"github.com/aperturerobotics/util/keyed"
	cbackoff "github.com/cenkalti/backoff/v4"
	"verifsim/harness/core"
	"verifsim/simrt"
)

const delayNs = int64(100 * time.Millisecond)
const retryNs = int64(60 * time.Millisecond)

type constBackoff struct{ d time.Duration }

func (b *constBackoff) NextBackOff() time.Duration { return b.d }
func (b *constBackoff) Reset()                     {}

var _ cbackoff.BackOff = (*constBackoff)(nil)

// mEntry is the reference model's view of one key.
type mEntry struct {
	token    int
	removeAt int64 // earliest possible deadline of the pending removal; -1: none pending
	removeHi int64 // latest possible deadline (the clock may have jumped while the removing call ran)
	refs     int
	// unsure: the container's context was cancelled by its owner while this key's routine may have been running
	// (or it was started under the dead context): whether the library counts it as failed is not known to the
	// model, so a removal may be immediate or delayed
	unsure bool
}

type kinst struct {
	n        int
	key      string
	token    int
	ctx      context.Context
	entered  int
	returned int
	err      error
	liveExit bool
	exitAt   int64
	ivl      int64 // backoff interval that applies to this (failed) exit
}

type setWorld struct {
	baseIvl int64       // interval of the constant backoffs (0: retry at once)
	growing bool        // retry configured as a growing exponential backoff (per routine object)
	streak  map[int]int // token -> failed exits since the routine object's last success
	c       *core.Ctx
	k       *keyed.Keyed[string, int]
	rc      *keyed.KeyedRefCount[string, int]
	delay   int64
	retry   bool
	failing bool
	settle  bool
	model   map[string]*mEntry
	nextTok int
	byTok   map[int]*mEntry
	insts   []*kinst
	instOf  map[int]*kinst // token -> most recent instance
	refs    []*refRec
	ctxOn   bool
	// retry obligations (C07.K3): key -> failed instance whose retry must still happen
	due    map[string]*kinst
	voided map[*kinst]bool
	// rootDead: the context currently held by the container has been cancelled by its owner
	rootDead bool
	nilTok   map[int]bool // tokens whose constructor returned no routine
}

// sure reports whether the model knows how the library classifies the routine of e when the
// container's context dies: no routine at all, or an instance that returned on its own before.
func (w *setWorld) sure(e *mEntry) bool {
	if w.nilTok[e.token] {
		return true
	}
	in := w.instOf[e.token]
	return in != nil && in.returned != 0 && in.liveExit
}

// void drops the retry obligation of key: a restarting call, a removal or a context change happened.
func (w *setWorld) void(key string) {
	if in := w.due[key]; in != nil {
		w.voided[in] = true
	}
	if e := w.model[key]; e != nil {
		if in := w.instOf[e.token]; in != nil {
			w.voided[in] = true
		}
	}
	delete(w.due, key)
}

type refRec struct {
	ref      *keyed.KeyedRef[string, int]
	key      string
	released bool
}

var keysU = []string{"a", "b", "c"}

func (w *setWorld) ctor(key string) (keyed.Routine, int) {
	c := w.c
	w.nextTok++
	tok := w.nextTok
	if c.S.PlanP(60) {
		// a constructor may return no routine: the key is in the set like any other (release delay included), nothing runs for it
		c.S.Count("probe:nil-routine")
		w.nilTok[tok] = true
		return nil, tok
	}
	return func(ctx context.Context) error {
		in := &kinst{n: len(w.insts) + 1, key: key, token: tok, ctx: ctx, entered: c.Tick()}
		w.insts = append(w.insts, in)
		w.instOf[tok] = in
		var err error
		beh := 0
		if w.failing {
			beh = c.S.Plan(4)
		}
		switch beh {
		case 1:
			err = fmt.Errorf("k-inst-%d-error", in.n)
			if c.S.PlanP(150) && ctx.Err() == nil {
				// an ordinary failure whose error value is the context.Canceled sentinel
				c.S.Count("probe:canceled-sentinel-result")
				err = context.Canceled
			}
		case 2:
			err = nil
		default:
			simrt.Recv1("keyedx.inst-run", ctx.Done())
			err = ctx.Err()
		}
		in.returned = c.Tick()
		in.err = err
		in.liveExit = ctx.Err() == nil
		in.exitAt = c.S.Now()
		in.ivl = w.baseIvl
		if w.growing && in.liveExit {
			// each routine object has its own backoff: 1x, 2x, 4x, 4x, … the base interval, reset by a success
			if err == nil {
				w.streak[tok] = 0
			} else {
				k := w.streak[tok]
				if k > 2 {
					k = 2
				}
				in.ivl = retryNs << uint(k)
				w.streak[tok]++
			}
		}
		if in.liveExit {
			c.S.Count("probe:routine-exited-on-its-own")
		}
		return err
	}, tok
}

// presence of a key according to the model: 1 present, 0 absent, -1 either (at or past its deadline but not yet settled)
func (w *setWorld) presence(key string, settled bool) int {
	e := w.model[key]
	if e == nil {
		return 0
	}
	if e.removeAt < 0 {
		return 1
	}
	now := w.c.S.Now()
	if now < e.removeAt {
		return 1
	}
	if now <= e.removeHi || !settled {
		return -1
	}
	return 0
}

// resolve collapses an "either" entry according to what the API just reported.
func (w *setWorld) resolve(key string, apiPresent bool) {
	if !apiPresent {
		if e := w.model[key]; e != nil {
			delete(w.byTok, e.token)
		}
		delete(w.model, key)
		delete(w.due, key)
	}
}

// expire drops entries whose deadline has definitely passed (called at settle points).
func (w *setWorld) expire() {
	now := w.c.S.Now()
	for _, key := range keysU {
		if e := w.model[key]; e != nil && e.removeAt >= 0 && now > e.removeHi {
			delete(w.byTok, e.token)
			delete(w.model, key)
			delete(w.due, key)
		}
	}
}

func (w *setWorld) failedNow(e *mEntry) bool {
	in := w.instOf[e.token]
	return in != nil && in.returned != 0 && in.liveExit && in.err != nil
}

// modelRemove applies RemoveKey semantics to the model; t0 is the virtual time
// at which the removing call was invoked.
func (w *setWorld) modelRemove(key string, t0 int64) {
	e := w.model[key]
	if e == nil {
		return
	}
	delete(w.due, key)
	if e.removeAt >= 0 {
		return // a removal is already pending
	}
	if w.delay == 0 || w.failedNow(e) {
		delete(w.byTok, e.token)
		delete(w.model, key)
		return
	}
	if e.unsure {
		// ended by (or started under) an owner-cancelled context: gone at once or at the deadline
		e.removeAt = t0
		e.removeHi = w.c.S.Now() + w.delay
		w.c.S.Count("probe:removal-after-root-cancel-either")
		return
	}
	e.removeAt = t0 + w.delay
	e.removeHi = w.c.S.Now() + w.delay
	w.c.S.Count("probe:delayed-removal-armed")
}

func (w *setWorld) checkExisted(what, key string, got bool) bool {
	p := w.presence(key, w.settle)
	if p == -1 {
		w.resolve(key, got)
		return true
	}
	if got != (p == 1) {
		w.c.Fail("C06.V1.existed", "%s(%q) reported existed=%v; the key set implied by the history says %v (t=%dms)", what, key, got, p == 1, w.c.S.Now()/1e6)
		return false
	}
	return true
}

func (w *setWorld) checkData(what, key string, got int) {
	if e := w.model[key]; e != nil && e.token != got {
		w.c.Fail("C06.V2.data", "%s(%q) returned data %d; the entry created for this key carries %d", what, key, got, e.token)
	}
}

func (w *setWorld) opSetKey(key string, start bool) {
	c := w.c
	c.Descf("op: SetKey(%q, start=%v)", key, start)
	tokBefore := w.nextTok
	var data int
	var existed bool
	if w.rc != nil {
		// KeyedRefCount has no SetKey; AddKeyRef is the re-request
		w.opAddRef(key)
		return
	}
	data, existed = w.k.SetKey(key, start)
	if !w.checkExisted("SetKey", key, existed) {
		return
	}
	if existed {
		if w.nextTok != tokBefore {
			c.Fail("C06.V3.recreated", "SetKey(%q) reported existed=true but called the constructor", key)
			return
		}
		e := w.model[key]
		if e.removeAt >= 0 {
			c.S.Count("probe:re-request-during-pending-removal")
		}
		e.removeAt, e.removeHi = -1, -1
		w.checkData("SetKey", key, data)
		if start {
			w.void(key)
		}
	} else {
		if w.nextTok != tokBefore+1 {
			c.Fail("C06.V3.not-created", "SetKey(%q) reported existed=false but did not call the constructor exactly once", key)
			return
		}
		e := &mEntry{token: w.nextTok, removeAt: -1, removeHi: -1}
		e.unsure = w.rootDead && !w.nilTok[e.token]
		w.model[key] = e
		w.byTok[e.token] = e
		w.checkData("SetKey", key, data)
	}
}

func (w *setWorld) opRemoveKey(key string) {
	c := w.c
	c.Descf("op: RemoveKey(%q)", key)
	t0 := c.S.Now()
	var existed bool
	if w.rc != nil {
		existed = w.rc.RemoveKey(key)
		for _, r := range w.refs {
			if r.key == key {
				r.released = true
			}
		}
		if e := w.model[key]; e != nil {
			e.refs = 0
		}
	} else {
		existed = w.k.RemoveKey(key)
	}
	if !w.checkExisted("RemoveKey", key, existed) {
		return
	}
	if existed {
		w.modelRemove(key, t0)
	}
}

func (w *setWorld) opSync(keys []string, restart bool) {
	c := w.c
	c.Descf("op: SyncKeys(%v, restart=%v)", keys, restart)
	tokBefore := w.nextTok
	t0 := c.S.Now()
	added, removed := w.k.SyncKeys(keys, restart)
	if w.rootDead {
		// SyncKeys drops a context that has ended: from here on the container has none
		w.rootDead, w.ctxOn = false, false
	}
	want := map[string]bool{}
	var wantAdded []string
	for _, key := range keys {
		if want[key] {
			continue
		}
		want[key] = true
		p := w.presence(key, w.settle)
		inAdded := false
		for _, a := range added {
			if a == key {
				inAdded = true
			}
		}
		if p == -1 {
			w.resolve(key, !inAdded)
			p = 0
			if !inAdded {
				p = 1
			}
		}
		if p == 0 {
			wantAdded = append(wantAdded, key)
			e := &mEntry{removeAt: -1, removeHi: -1}
			w.model[key] = e
		} else {
			e := w.model[key]
			if e.removeAt >= 0 {
				c.S.Count("probe:re-request-during-pending-removal")
			}
			e.removeAt, e.removeHi = -1, -1
			if restart {
				w.void(key)
			}
		}
	}
	if fmt.Sprint(added) != fmt.Sprint(wantAdded) {
		c.Fail("C06.V4.sync-added", "SyncKeys(%v) returned added=%v; the key set implied by the history gives %v", keys, added, wantAdded)
		return
	}
	// the constructor is called once per added key, in order
	if w.nextTok != tokBefore+len(wantAdded) {
		c.Fail("C06.V3.not-created", "SyncKeys(%v) added %v but called the constructor %d times", keys, wantAdded, w.nextTok-tokBefore)
		return
	}
	for i, key := range wantAdded {
		w.model[key].token = tokBefore + i + 1
		w.byTok[tokBefore+i+1] = w.model[key]
	}
	var wantRemoved []string
	either := map[string]bool{}
	for _, key := range keysU {
		if want[key] {
			continue
		}
		switch w.presence(key, w.settle) {
		case 1:
			wantRemoved = append(wantRemoved, key)
		case -1:
			either[key] = true
		}
	}
	got := append([]string(nil), removed...)
	sort.Strings(got)
	var gotStrict []string
	for _, key := range got {
		if either[key] {
			continue
		}
		gotStrict = append(gotStrict, key)
	}
	if fmt.Sprint(gotStrict) != fmt.Sprint(wantRemoved) {
		c.Fail("C06.V4.sync-removed", "SyncKeys(%v) returned removed=%v; the key set implied by the history gives %v", keys, removed, wantRemoved)
		return
	}
	for _, key := range keysU {
		if either[key] {
			inRemoved := false
			for _, r := range got {
				if r == key {
					inRemoved = true
				}
			}
			w.resolve(key, inRemoved)
		}
	}
	for _, key := range wantRemoved {
		w.modelRemove(key, t0)
	}
	for _, key := range keysU {
		if either[key] && w.model[key] != nil {
			w.modelRemove(key, t0)
		}
	}
}

func (w *setWorld) opAddRef(key string) {
	c := w.c
	c.Descf("op: AddKeyRef(%q)", key)
	tokBefore := w.nextTok
	ref, data, existed := w.rc.AddKeyRef(key)
	w.refs = append(w.refs, &refRec{ref: ref, key: key})
	if !w.checkExisted("AddKeyRef", key, existed) {
		return
	}
	if existed {
		e := w.model[key]
		if e.removeAt >= 0 {
			c.S.Count("probe:re-request-during-pending-removal")
		}
		e.removeAt, e.removeHi = -1, -1
		e.refs++
		w.void(key) // AddKeyRef restarts (SetKey start=true)
		w.checkData("AddKeyRef", key, data)
	} else {
		if w.nextTok != tokBefore+1 {
			c.Fail("C06.V3.not-created", "AddKeyRef(%q) reported existed=false but did not call the constructor exactly once", key)
			return
		}
		e := &mEntry{token: w.nextTok, removeAt: -1, removeHi: -1, refs: 1}
		e.unsure = w.rootDead && !w.nilTok[e.token]
		w.model[key] = e
		w.byTok[e.token] = e
		w.checkData("AddKeyRef", key, data)
	}
}

func (w *setWorld) opReleaseRef() {
	c := w.c
	if len(w.refs) == 0 {
		return
	}
	r := w.refs[c.S.Plan(len(w.refs))]
	times := 1
	if c.S.FaultP(300) {
		times = 2
		c.S.Count("fault:double-release")
	}
	c.Descf("op: KeyedRef.Release(%q) x%d (already released: %v)", r.key, times, r.released)
	t0 := c.S.Now()
	for i := 0; i < times; i++ {
		r.ref.Release()
	}
	if !r.released {
		r.released = true
		if e := w.model[r.key]; e != nil && e.refs > 0 {
			e.refs--
			if e.refs == 0 {
				w.modelRemove(r.key, t0)
			}
		}
	} else {
		c.S.Count("fault:double-release")
	}
}

func (w *setWorld) apiKeys() ([]string, []keyed.KeyWithData[string, int]) {
	var ks []string
	var kd []keyed.KeyWithData[string, int]
	if w.rc != nil {
		ks, kd = w.rc.GetKeys(), w.rc.GetKeysWithData()
	} else {
		ks, kd = w.k.GetKeys(), w.k.GetKeysWithData()
	}
	sort.Strings(ks)
	sort.Slice(kd, func(i, j int) bool { return kd[i].Key < kd[j].Key })
	return ks, kd
}

func (w *setWorld) compareSets(settled bool) {
	c := w.c
	have := map[string]bool{}
	var ks []string
	if settled {
		var kd []keyed.KeyWithData[string, int]
		ks, kd = w.apiKeys()
		for i, key := range ks {
			if have[key] {
				c.Fail("C06.S1.duplicate-key", "GetKeys returned %v", ks)
				return
			}
			have[key] = true
			if i >= len(kd) || kd[i].Key != key {
				c.Fail("C06.S1.keys-with-data-mismatch", "GetKeys returned %v but GetKeysWithData returned %v", ks, kd)
				return
			}
		}
	}
	for _, key := range keysU {
		var gdata int
		var gok bool
		if w.rc != nil {
			gdata, gok = w.rc.GetKey(key)
		} else {
			gdata, gok = w.k.GetKey(key)
		}
		// evaluated after the call: the clock only moves forward, so "present"
		// now means present during the whole call
		p := w.presence(key, settled)
		if settled && gok != have[key] {
			c.Fail("C06.S1.getkey-vs-getkeys", "GetKey(%q) existed=%v but GetKeys=%v", key, gok, ks)
			return
		}
		have[key] = gok
		switch {
		case p == 1 && !have[key]:
			e := w.model[key]
			if e.removeAt >= 0 {
				c.Fail("C06.S2.removed-before-deadline", "key %q is gone at t=%dms although its (current) delayed removal is due only at t=%dms", key, c.S.Now()/1e6, e.removeAt/1e6)
			} else {
				c.Fail("C06.S2.missing-key", "key %q was requested and not removed since (a pending delayed removal was cancelled by the re-request), but it is not in the key set at t=%dms", key, c.S.Now()/1e6)
			}
			return
		case p == 0 && have[key]:
			c.Fail("C06.S2.extra-key", "key %q is in the key set at t=%dms although it was removed (deadline passed or no delay)", key, c.S.Now()/1e6)
			return
		case p == -1:
			w.resolve(key, have[key])
		}
		if have[key] && w.model[key] != nil && w.model[key].token != 0 && gdata != w.model[key].token {
			c.Fail("C06.V2.data", "GetKey(%q) returned data %d, the entry carries %d", key, gdata, w.model[key].token)
			return
		}
		if w.rc != nil && have[key] && w.model[key] != nil && w.model[key].refs == 0 && w.model[key].removeAt < 0 {
			c.Fail("C06.S3.refcount-present-without-refs", "key %q is present without any unreleased reference and without a pending delayed removal", key)
			return
		}
	}
}

// retry obligations (C07.K3)
func (w *setWorld) noteFailures() {
	if !w.retry || !w.ctxOn || w.rootDead {
		return
	}
	for _, key := range keysU {
		e := w.model[key]
		if e == nil || w.instOf[e.token] == nil {
			continue
		}
		in := w.instOf[e.token]
		if in.returned != 0 && in.liveExit && in.err != nil && !w.voided[in] {
			if _, ok := w.due[key]; !ok {
				w.due[key] = in
				w.c.S.Count("probe:retry-obligation")
			}
		}
	}
}

func (w *setWorld) checkRetries() {
	c := w.c
	for _, key := range keysU {
		in := w.due[key]
		if in == nil {
			continue
		}
		e := w.model[key]
		if e == nil || e.token != in.token {
			delete(w.due, key)
			continue
		}
		if w.instOf[e.token] != in {
			delete(w.due, key) // a newer instance has entered
			continue
		}
		if c.S.Now() > in.exitAt+in.ivl && w.presence(key, true) == 1 {
			c.Fail("C07.K3.retry-lost", "key %q stayed in the set with retry configured; its routine failed at t=%dms and only non-restarting calls followed, but at t=%dms (backoff %dms) no new instance has entered", key, in.exitAt/1e6, c.S.Now()/1e6, in.ivl/1e6)
			return
		}
	}
}

func runSet(c *core.Ctx) {
	w := &setWorld{c: c, model: map[string]*mEntry{}, byTok: map[int]*mEntry{}, due: map[string]*kinst{}, instOf: map[int]*kinst{}, streak: map[int]int{}, baseIvl: retryNs, voided: map[*kinst]bool{}, nilTok: map[int]bool{}}
	c.PanicOracle = "C06.P.panic"
	if c.S.PlanP(550) {
		w.delay = delayNs
	}
	w.retry = c.S.PlanP(350)
	w.failing = w.retry || c.S.PlanP(250)
	w.settle = !c.S.PlanP(300)
	if !w.settle {
		// without settling the harness cannot know whether an exit has been recorded yet
		w.retry, w.failing = false, false
	}
	useRC := c.S.PlanP(350)
	var opts []keyed.Option[string, int]
	if w.delay != 0 {
		opts = append(opts, keyed.WithReleaseDelay[string, int](time.Duration(w.delay)))
	}
	if w.retry && c.S.PlanP(200) {
		// a growing exponential configuration: every routine object has its own backoff state
		w.growing = true
		opts = append(opts, keyed.WithRetry[string, int](&ubackoff.Backoff{BackoffKind: ubackoff.BackoffKind_BackoffKind_EXPONENTIAL, Exponential: &ubackoff.Exponential{InitialInterval: uint32(retryNs / 1e6), Multiplier: 2, MaxInterval: uint32(4 * retryNs / 1e6)}}))
	} else if w.retry && c.S.PlanP(200) {
		// an exponential configuration whose intervals never exceed the same bound (multiplier below one: they shrink)
		opts = append(opts, keyed.WithRetry[string, int](&ubackoff.Backoff{BackoffKind: ubackoff.BackoffKind_BackoffKind_EXPONENTIAL, Exponential: &ubackoff.Exponential{InitialInterval: uint32(retryNs / 1e6), Multiplier: 0.5, MaxInterval: uint32(retryNs / 1e6)}}))
	} else if w.retry && c.S.PlanP(400) {
		// the same interval through the library's own backoff configuration
		opts = append(opts, keyed.WithRetry[string, int](&ubackoff.Backoff{BackoffKind: ubackoff.BackoffKind_BackoffKind_CONSTANT, Constant: &ubackoff.Constant{Interval: uint32(retryNs / 1e6)}}))
	} else if w.retry && c.S.PlanP(150) {
		// a backoff whose interval is zero (retry at once) is as legal as any other
		w.baseIvl = 0
		opts = append(opts, keyed.WithBackoff[string, int](func(string) cbackoff.BackOff { return &constBackoff{0} }))
	} else if w.retry {
		opts = append(opts, keyed.WithBackoff[string, int](func(string) cbackoff.BackOff { return &constBackoff{time.Duration(retryNs)} }))
	}
	if useRC {
		w.rc = keyed.NewKeyedRefCount(w.ctor, opts...)
	} else {
		w.k = keyed.NewKeyed(w.ctor, opts...)
	}
	if !w.settle {
		c.S.TimerEarlyPermille = 40
	}
	c.Descf("keyedset: refcount=%v delay=%dms retry=%v failing=%v settle=%v", useRC, w.delay/1e6, w.retry, w.failing, w.settle)
	ctx, cancel := context.WithCancel(context.Background())
	defer func() { cancel() }()
	setCtx := func(on bool) {
		var cx context.Context
		if on {
			cx = ctx
		}
		c.Descf("op: SetContext(on=%v)", on)
		if w.rc != nil {
			w.rc.SetContext(cx, false)
		} else {
			w.k.SetContext(cx, false)
		}
		w.ctxOn = on
		w.rootDead = false
		for _, key := range keysU {
			w.void(key) // errored routines are documented not to restart when the context is cleared and set again
		}
	}
	// switchCtx replaces the context by a different live one without restart: a
	// non-restarting call, so pending retries must still happen (C07.K3)
	switchCtx := func() {
		var cancel2 context.CancelFunc
		ctx, cancel2 = context.WithCancel(context.Background())
		_ = cancel2
		c.Descf("op: SetContext(other live context, restart=false)")
		c.S.Count("probe:context-switched")
		if w.rc != nil {
			w.rc.SetContext(ctx, false)
		} else {
			w.k.SetContext(ctx, false)
		}
		w.rootDead = false
	}
	// killRoot: the owner of the context handed to the container cancels it behind the container's back.
	// Routines that are running end with the context's error; the key set is untouched, and a key whose
	// routine had completed on its own (or has none) keeps its release delay (C06).
	killRoot := func() {
		c.Descf("fault: the owner cancels the context the container holds")
		c.S.Count("fault:root-cancel")
		for _, key := range keysU {
			w.void(key)
			if e := w.model[key]; e != nil && !w.sure(e) {
				e.unsure = true
			}
		}
		w.rootDead = true
		cancel()
		ctx, cancel = context.WithCancel(context.Background())
	}
	if c.S.PlanP(800) {
		setCtx(true)
	}
	nops := c.IntRange(3, 9)
	if c.Thorough {
		nops = c.IntRange(3, 16)
	}
	for i := 0; i < nops && !c.Failed(); i++ {
		key := keysU[c.S.Plan(len(keysU))]
		switch k := c.S.Plan(20); {
		case k < 5:
			w.opSetKey(key, c.S.PlanP(400))
		case k < 8:
			w.opRemoveKey(key)
		case k < 11:
			if w.rc != nil {
				w.opReleaseRef()
			} else {
				n := c.S.Plan(4)
				var keys []string
				for j := 0; j < n; j++ {
					keys = append(keys, keysU[c.S.Plan(len(keysU))])
				}
				w.opSync(keys, c.S.PlanP(300))
			}
		case k < 13:
			if w.rc != nil {
				w.opAddRef(key)
			} else {
				w.opSetKey(key, false)
			}
		case k < 17:
			// time jump: before, exactly at, or after a pending deadline
			var d int64
			at, ok := c.S.NextTimerAt()
			switch c.S.Plan(4) {
			case 0:
				d = 30e6
			case 1:
				if ok {
					d = at - c.S.Now() - 1e6
				} else {
					d = 50e6
				}
			case 2:
				if ok {
					d = at - c.S.Now()
				} else {
					d = 100e6
				}
			default:
				d = 130e6
			}
			if d < 0 {
				d = 0
			}
			c.Descf("op: advance time by %dms", d/1e6)
			c.S.Count("fault:time-jump")
			c.S.Advance(d)
		case k < 18:
			if w.ctxOn && !w.rootDead && !w.retry && c.S.FaultP(350) {
				killRoot()
			} else if w.ctxOn && c.S.PlanP(500) {
				switchCtx()
			} else {
				setCtx(!w.ctxOn)
			}
		default:
			w.compareSets(false)
		}
		if c.Failed() {
			return
		}
		if w.settle {
			c.S.Quiesce()
			w.expire()
			w.compareSets(true)
			w.noteFailures()
			w.checkRetries()
		}
	}
	if c.Failed() {
		return
	}
	// final: settle, let every deadline and backoff pass, compare
	c.S.Quiesce()
	w.noteFailures()
	c.S.Advance(delayNs + retryNs + 10e6)
	c.S.Quiesce()
	w.expire()
	w.compareSets(true)
	if c.Failed() {
		return
	}
	w.checkRetries()
	if w.rc != nil {
		w.rc.ClearContext()
	} else {
		w.k.ClearContext()
	}
	c.S.Quiesce()
	for _, in := range w.insts {
		if in.returned == 0 {
			c.Fail("C07.K2.running-after-clearcontext", "instance %d of key %q is still running after ClearContext", in.n, in.key)
			return
		}
	}
}
