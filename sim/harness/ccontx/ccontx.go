// Package ccontx: scenario "ccont" — ccontainer.CContainer under seeded
// schedules: writers (SetValue, SwapValue with a callback that yields inside)
// against waiters (WaitValue, WaitValueChange, WaitValueEmpty,
// WaitValueWithValidator) with cancellation and error-channel faults. C15.
package ccontx

import (
	"context"
	"errors"

	"github.com/aperturerobotics/util/ccontainer"
	"verifsim/harness/core"
	"verifsim/simrt"
)

type waiter struct {
	id        int
	task      *simrt.Task
	kind      int   // 0 WaitValue 1 WaitValueChange 2 WaitValueEmpty 3 validator(>=k) 4 validator with error 5 nil validator 6 WatchChanges
	seen      []int // WatchChanges: values delivered to the callback
	old, k    int
	inCall    bool
	inv       int
	cancel    context.CancelFunc
	cancelReq int
	errCh     chan error
	errSent   error
	errClosed bool
	validErr  error
	validHit  bool
}

type world struct {
	c       *core.Ctx
	cc      *ccontainer.CContainer[int]
	mod     int // custom equality: equal mod `mod` (0 = default equality)
	counter bool
	hist    core.CellHistory
	init    *core.Write
	ws      []*waiter
	gates   []chan struct{}
	swaps   []int
	nswap   int
}

func (w *world) eq(a, b int) bool {
	if a == b {
		return true
	}
	return w.mod != 0 && a%w.mod == b%w.mod
}

func (w *world) cond(x *waiter, v int) bool {
	switch x.kind {
	case 0, 5:
		return !w.eq(0, v)
	case 6:
		last := x.old
		if len(x.seen) > 0 {
			last = x.seen[len(x.seen)-1]
		}
		return !w.eq(last, v)
	case 1:
		return !w.eq(x.old, v)
	case 2:
		return w.eq(0, v)
	default:
		return v >= x.k
	}
}

func (w *world) writer(id, nops int) {
	c := w.c
	for i := 0; i < nops; i++ {
		if c.S.PlanP(300) {
			g := make(chan struct{})
			w.gates = append(w.gates, g)
			simrt.Recv1("ccontx.gate", g)
		}
		if w.counter {
			yields := c.S.Plan(3)
			c.Descf("writer %d: SwapValue(+1)", id)
			var wr *core.Write
			res := w.cc.SwapValue(func(v int) int {
				core.YieldN("ccontx.swapcb", yields)
				wr = w.hist.Begin(c, v+1)
				return v + 1
			})
			wr.End(c)
			w.swaps = append(w.swaps, res)
			w.nswap++
			continue
		}
		val := 0
		if !c.S.PlanP(200) {
			val = (id+1)*100 + i + 1
		}
		if w.mod != 0 && c.S.PlanP(500) {
			// with the custom equality some non-zero values are "equal" to the zero value or to each other
			val = c.S.Plan(4)*w.mod + c.S.Plan(3)
		}
		if c.S.PlanP(600) {
			c.Descf("writer %d: SetValue(%d)", id, val)
			wr := w.hist.Begin(c, val)
			w.cc.SetValue(val)
			wr.End(c)
		} else {
			c.Descf("writer %d: SwapValue(->%d)", id, val)
			wr := w.hist.Begin(c, val)
			res := w.cc.SwapValue(func(v int) int {
				core.YieldN("ccontx.swapcb", 1)
				return val
			})
			wr.End(c)
			if res != val {
				c.Fail("C15.A1.swap-result", "SwapValue returned %d, its callback returned %d", res, val)
			}
		}
		if c.S.PlanP(200) {
			// nil callback: returns the current value without changes
			inv := c.Tick()
			v := w.cc.SwapValue(nil)
			w.checkSeen("SwapValue(nil)", v, inv, c.Tick())
		}
		if c.S.PlanP(300) {
			inv := c.Tick()
			v := w.cc.GetValue()
			w.checkSeen("GetValue", v, inv, c.Tick())
		}
	}
}

// checkSeen: v must be a value the cell may have held during [inv, ret].
func (w *world) checkSeen(what string, v, inv, ret int) {
	for _, wr := range w.hist.Writes {
		if wr.Val.(int) == v && w.hist.Possible(wr, inv, ret, w.overwrites) {
			return
		}
	}
	w.c.Fail("C15.A2.value-never-held", "%s returned %d, which the cell cannot have held at any moment of the call", what, v)
}

// with a custom equality a later write may be a no-op, so nothing counts as
// definitely overwritten; with the default equality every write of a
// different value overwrites.
func (w *world) overwrites(o *core.Write) bool { return w.mod == 0 }

func (w *world) runWaiter(x *waiter) {
	c := w.c
	ctx, cancel := context.WithCancel(context.Background())
	defer cancel()
	x.cancel = cancel
	var errCh <-chan error
	if c.S.PlanP(500) {
		x.errCh = make(chan error, 1)
		errCh = x.errCh
	}
	switch c.S.Fault(10) {
	case 1:
		x.cancelReq = c.Tick()
		c.S.Count("fault:cancel-before")
		cancel()
	case 2, 3:
		k := c.S.Fault(14)
		c.S.GoNamed("canceller", func() {
			core.YieldN("ccontx.canceller", k)
			if x.inCall && x.cancelReq == 0 {
				x.cancelReq = c.Tick()
				c.S.Count("fault:cancel-async")
				cancel()
			}
		})
	case 4:
		if x.errCh != nil {
			k := c.S.Fault(14)
			mode := c.S.Fault(3)
			c.S.GoNamed("errch", func() {
				core.YieldN("ccontx.errch", k)
				if !x.inCall {
					return
				}
				w.fireErrCh(x, mode)
			})
		}
	}
	var v int
	var err error
	x.inCall = true
	x.inv = c.Tick()
	switch x.kind {
	case 0:
		c.Descf("waiter %d: WaitValue", x.id)
		v, err = w.cc.WaitValue(ctx, errCh)
	case 1:
		c.Descf("waiter %d: WaitValueChange(%d)", x.id, x.old)
		v, err = w.cc.WaitValueChange(ctx, x.old, errCh)
	case 2:
		c.Descf("waiter %d: WaitValueEmpty", x.id)
		err = w.cc.WaitValueEmpty(ctx, errCh)
	case 5:
		c.Descf("waiter %d: WaitValueWithValidator(nil validator)", x.id)
		v, err = w.cc.WaitValueWithValidator(ctx, nil, errCh)
	case 6:
		c.Descf("waiter %d: WatchChanges(initial %d)", x.id, x.old)
		var watchErr error
		limit := c.IntRange(1, 3)
		stopErr := errors.New("watch-stop")
		watchErr = ccontainer.WatchChanges[int](ctx, x.old, w.cc, func(v int) error {
			last := x.old
			if len(x.seen) > 0 {
				last = x.seen[len(x.seen)-1]
			}
			if w.eq(last, v) {
				c.Fail("C15.W3.watch-unchanged-value", "WatchChanges delivered %d although it equals the previously delivered value %d", v, last)
			}
			w.checkSeen("WatchChanges", v, x.inv, c.Tick())
			x.seen = append(x.seen, v)
			c.S.Count("probe:watch-delivered")
			if len(x.seen) >= limit {
				return stopErr
			}
			return nil
		}, errCh)
		if watchErr == stopErr {
			x.inCall = false
			return
		}
		err = watchErr
		if err == nil {
			x.inCall = false
			c.Fail("C15.W3.watch-returned-nil", "WatchChanges returned nil")
			return
		}
	case 3:
		c.Descf("waiter %d: WaitValueWithValidator(>=%d)", x.id, x.k)
		peek := c.S.PlanP(400)
		v, err = w.cc.WaitValueWithValidator(ctx, func(v int) (bool, error) {
			if peek {
				// a validator may look at the container again (validators run without its lock)
				c.S.Count("probe:validator-reads-container")
				_ = w.cc.GetValue()
			}
			return v >= x.k, nil
		}, errCh)
	default:
		x.validErr = errors.New("validator-error")
		c.Descf("waiter %d: WaitValueWithValidator(>=%d, error at multiples of 3)", x.id, x.k)
		v, err = w.cc.WaitValueWithValidator(ctx, func(v int) (bool, error) {
			if v != 0 && v%3 == 0 {
				x.validHit = true
				return false, x.validErr
			}
			return v >= x.k, nil
		}, errCh)
	}
	ret := c.Tick()
	x.inCall = false
	switch {
	case err == nil:
		if x.kind != 2 && x.kind != 6 {
			if !w.cond(x, v) {
				c.Fail("C15.W1.condition", "waiter kind %d returned %d which does not satisfy its wait condition", x.kind, v)
			}
			w.checkSeen("waiter", v, x.inv, ret)
		}
	case x.validErr != nil && err == x.validErr:
		if !x.validHit {
			c.Fail("C15.W2.error-source", "waiter returned the validator's error although the validator never returned it")
		}
	case x.errSent != nil && err == x.errSent:
		// delivered error-channel error
	case err == context.Canceled:
		if x.cancelReq == 0 && !x.errClosed {
			c.Fail("C15.W2.spurious-cancel", "waiter %d returned context.Canceled although neither its context was cancelled nor its error channel closed", x.id)
		}
	default:
		c.Fail("C15.W2.unknown-error", "waiter returned an error from no source that fired: %v", err)
	}
}

func (w *world) fireErrCh(x *waiter, mode int) {
	c := w.c
	switch mode {
	case 0:
		x.errSent = errors.New("errch-error")
		c.S.Count("fault:errch-error")
		x.errCh <- x.errSent
	case 1:
		c.S.Count("fault:errch-nil")
		select {
		case x.errCh <- nil:
		default:
		}
	default:
		x.errClosed = true
		c.S.Count("fault:errch-close")
		close(x.errCh)
	}
}

func (w *world) checkQuiescent() {
	c := w.c
	cur := w.cc.GetValue()
	for _, x := range w.ws {
		if !x.inCall || !x.task.Blocked() {
			continue
		}
		if x.cancelReq != 0 {
			c.Fail("C15.Q.cancelled-waiter-blocked", "waiter %d blocked at a quiescent point although its context was cancelled", x.id)
			return
		}
		if x.errSent != nil || x.errClosed {
			c.Fail("C15.Q.errch-waiter-blocked", "waiter %d blocked at a quiescent point although its error channel fired", x.id)
			return
		}
		sat := w.cond(x, cur)
		if x.kind == 4 && cur != 0 && cur%3 == 0 {
			sat = true
		}
		if sat {
			c.Fail("C15.Q.blocked-while-satisfied", "waiter %d (kind %d, old=%d, k=%d) is blocked at a quiescent point while the cell holds %d, which satisfies its condition", x.id, x.kind, x.old, x.k, cur)
			return
		}
		c.S.Count("probe:waiter-blocked-at-quiescence")
	}
}

func run(c *core.Ctx) {
	w := &world{c: c}
	c.PanicOracle = "C15.A0.panic"
	c.SpinOracle = "C15.SPIN.busy-wait"
	w.counter = c.S.PlanP(350)
	if c.S.PlanP(300) && !w.counter {
		w.mod = 8
		w.cc = ccontainer.NewCContainerWithEqual(0, func(a, b int) bool { return a%8 == b%8 })
	} else {
		w.cc = ccontainer.NewCContainer(0)
	}
	w.init = &core.Write{Inv: 0, Ret: 0, Val: 0}
	w.init.Ret = c.Tick()
	w.hist.Writes = append(w.hist.Writes, w.init)
	nwr := c.IntRange(1, 3)
	nwa := c.IntRange(1, 3)
	maxops := 3
	if c.Thorough {
		nwa = c.IntRange(1, 5)
		maxops = 5
	}
	c.Descf("ccont: counter=%v mod=%d writers=%d waiters=%d", w.counter, w.mod, nwr, nwa)
	var tasks []*simrt.Task
	for i := 0; i < nwa; i++ {
		x := &waiter{id: i, kind: c.S.Plan(7)}
		if w.counter {
			x.kind = 3
		}
		x.old = 0
		if c.S.PlanP(500) {
			x.old = 101
		}
		x.k = c.IntRange(1, 4)
		if !w.counter && x.kind >= 3 {
			x.k = (c.IntRange(1, 3))*100 + c.IntRange(1, 3)
		}
		w.ws = append(w.ws, x)
		x.task = c.Actor("waiter", func() { w.runWaiter(x) })
		tasks = append(tasks, x.task)
	}
	total := 0
	for i := 0; i < nwr; i++ {
		id, nops := i, c.IntRange(1, maxops)
		total += nops
		tasks = append(tasks, c.Actor("writer", func() { w.writer(id, nops) }))
	}
	for round := 0; round < 300; round++ {
		c.S.Quiesce()
		if c.Failed() {
			return
		}
		w.checkQuiescent()
		if c.Failed() {
			return
		}
		alldone := true
		for _, t := range tasks {
			if !t.Done() {
				alldone = false
			}
		}
		if alldone {
			break
		}
		var cancellable []*waiter
		for _, x := range w.ws {
			if x.inCall && x.task.Blocked() && x.cancelReq == 0 && x.errSent == nil && !x.errClosed {
				cancellable = append(cancellable, x)
			}
		}
		if len(w.gates) > 0 && (len(cancellable) == 0 || !c.S.FaultP(250)) {
			i := c.S.Plan(len(w.gates))
			g := w.gates[i]
			w.gates = append(w.gates[:i], w.gates[i+1:]...)
			close(g)
			continue
		}
		if len(cancellable) > 0 {
			x := cancellable[c.S.Fault(len(cancellable))]
			if x.errCh != nil && c.S.FaultP(400) {
				w.fireErrCh(x, c.S.Fault(3))
				if x.errSent == nil && !x.errClosed {
					// a nil error must not end the wait; cancel as well so the run terminates
					c.S.Quiesce()
					if !x.task.Blocked() {
						c.Fail("C15.W2.nil-error-ended-wait", "a nil error on the error channel ended the wait")
						return
					}
					x.cancelReq = c.Tick()
					x.cancel()
				}
				continue
			}
			x.cancelReq = c.Tick()
			c.S.Count("fault:cancel-blocked")
			x.cancel()
			continue
		}
		c.Stuck("no event to inject but tasks are not done: %s", c.S.StalledString())
		return
	}
	if w.counter {
		// atomicity: N increments give N, and the results are a permutation of 1..N
		if got := w.cc.GetValue(); got != total {
			c.Fail("C15.A1.lost-update", "after %d SwapValue(+1) calls the cell holds %d", total, got)
			return
		}
		seen := make([]bool, total+1)
		for _, r := range w.swaps {
			if r < 1 || r > total || seen[r] {
				c.Fail("C15.A1.swap-results-not-a-permutation", "SwapValue(+1) results %v are not a permutation of 1..%d", w.swaps, total)
				return
			}
			seen[r] = true
		}
	}
}

func init() {
	core.Register(&core.Scenario{
		Name:  "ccont",
		Props: []string{"C15"},
		Run:   run,
		NonTrivial: func(n map[string]int) bool {
			return n["probe:waiter-blocked-at-quiescence"] > 0 || n["fault:cancel-async"] > 0 || n["probe:mutex-contended"] > 0
		},
		Rule: "non-trivial: a waiter was parked at a quiescent point, a cancellation landed inside a wait, or two critical sections contended",
	})
}
