// Package concx: scenario "conc" — conc.ConcurrentQueue under seeded
// schedules: producers enqueueing batches, jobs of scripted duration,
// WaitIdle / WatchState callers with cancellation and error-channel faults. C18.
package concx

import (
	"context"
	"errors"

	"github.com/aperturerobotics/util/conc"
	"verifsim/harness/core"
	"verifsim/simrt"
)

type job struct {
	id       int
	producer int
	seq      int // per-producer sequence
	enqInv   int
	enqRet   int
	started  int
	finished int
	runs     int
}

type idler struct {
	id        int
	task      *simrt.Task
	inCall    bool
	inv       int
	cancel    context.CancelFunc
	cancelReq int
	errCh     chan error
	errSent   error
	errClosed bool
}

type world struct {
	c       *core.Ctx
	q       *conc.ConcurrentQueue
	limit   int
	jobs    []*job
	running int
	gates   []chan struct{}
	started []*job // start order
	idlers  []*idler
}

func (w *world) mkJob(j *job) func() {
	c := w.c
	beh := c.S.Plan(4)
	k := c.S.Plan(4)
	return func() {
		j.runs++
		if j.runs > 1 {
			c.Fail("C18.J1.job-ran-twice", "job %d ran %d times", j.id, j.runs)
		}
		j.started = c.Tick()
		w.started = append(w.started, j)
		w.running++
		if w.limit > 0 && w.running > w.limit {
			c.Fail("C18.L1.limit-exceeded", "%d jobs executing at once with limit %d", w.running, w.limit)
		}
		if beh == 0 {
			g := make(chan struct{})
			w.gates = append(w.gates, g)
			simrt.Recv1("concx.job-gate", g)
		} else {
			core.YieldN("concx.job", k)
		}
		w.running--
		j.finished = c.Tick()
	}
}

func (w *world) checkCounts(where string, queued, running int) {
	if queued < 0 || running < 0 {
		w.c.Fail("C18.C1.negative-count", "%s reported queued=%d running=%d", where, queued, running)
	}
	if queued > 0 && running != w.limit {
		w.c.Fail("C18.C1.queued-while-capacity", "%s reported queued=%d although running=%d differs from the limit %d", where, queued, running, w.limit)
	}
	if w.limit > 0 && running > w.limit {
		w.c.Fail("C18.C1.running-above-limit", "%s reported running=%d with limit %d", where, running, w.limit)
	}
}

func (w *world) producer(id, ncalls int) {
	c := w.c
	seq := 0
	for i := 0; i < ncalls; i++ {
		if c.S.PlanP(250) {
			g := make(chan struct{})
			w.gates = append(w.gates, g)
			simrt.Recv1("concx.producer-gate", g)
		}
		n := c.S.Plan(4)
		var fns []func()
		var js []*job
		inv := c.Tick()
		for k := 0; k < n; k++ {
			j := &job{id: len(w.jobs), producer: id, seq: seq, enqInv: inv}
			seq++
			w.jobs = append(w.jobs, j)
			js = append(js, j)
			fns = append(fns, w.mkJob(j))
			if c.S.FaultP(80) {
				// a nil job is allowed: it occupies a slot for an instant and does nothing
				c.S.Count("fault:nil-arg")
				fns = append(fns, nil)
			}
		}
		c.Descf("producer %d: Enqueue(%d jobs)", id, n)
		queued, running := w.q.Enqueue(fns...)
		ret := c.Tick()
		for _, j := range js {
			j.enqRet = ret
		}
		w.checkCounts("Enqueue", queued, running)
		if c.Failed() {
			return
		}
	}
}

func (w *world) runIdler(x *idler) {
	c := w.c
	ctx, cancel := context.WithCancel(context.Background())
	defer cancel()
	x.cancel = cancel
	var errCh <-chan error
	if c.S.PlanP(400) {
		x.errCh = make(chan error, 1)
		errCh = x.errCh
	}
	switch c.S.Fault(10) {
	case 1:
		x.cancelReq = c.Tick()
		c.S.Count("fault:cancel-before")
		cancel()
	case 2:
		k := c.S.Fault(14)
		c.S.GoNamed("canceller", func() {
			core.YieldN("concx.canceller", k)
			if x.inCall && x.cancelReq == 0 {
				x.cancelReq = c.Tick()
				c.S.Count("fault:cancel-async")
				cancel()
			}
		})
	}
	if c.S.PlanP(300) {
		// WatchState watcher: checks every pair it is shown, stops after a few
		seen := 0
		c.Descf("watcher %d: WatchState", x.id)
		var cbErr error
		if c.S.PlanP(300) {
			cbErr = errors.New("watch-callback-error")
		}
		x.inCall = true
		err := w.q.WatchState(ctx, errCh, func(queued, running int) (bool, error) {
			w.checkCounts("WatchState", queued, running)
			seen++
			if seen >= 3 && cbErr != nil {
				return true, cbErr
			}
			return seen < 4, nil
		})
		x.inCall = false
		if cbErr != nil && err == cbErr {
			err = nil
		}
		if err != nil && !(err == context.Canceled && x.cancelReq != 0) {
			c.Fail("C18.W2.watch-error", "WatchState returned %v (cancelled=%v)", err, x.cancelReq != 0)
		}
		if w.q.WatchState(ctx, nil, nil) != nil {
			c.S.Count("probe:watchstate-nil-cb-error")
		}
		return
	}
	c.Descf("idler %d: WaitIdle", x.id)
	x.inv = c.Tick()
	x.inCall = true
	err := w.q.WaitIdle(ctx, errCh)
	ret := c.Tick()
	x.inCall = false
	switch {
	case err == nil:
		for _, j := range w.jobs {
			if j.enqRet != 0 && j.enqRet < x.inv && (j.finished == 0 || j.finished > ret) {
				c.Fail("C18.I1.idle-before-done", "WaitIdle returned nil although job %d, enqueued before WaitIdle was called, has not finished", j.id)
				return
			}
		}
	case err == context.Canceled:
		if x.cancelReq == 0 && !x.errClosed {
			c.Fail("C18.I2.spurious-cancel", "WaitIdle returned context.Canceled although neither its context was cancelled nor its error channel closed")
		}
	case x.errSent != nil && err == x.errSent:
	default:
		c.Fail("C18.I2.unknown-error", "WaitIdle returned %v", err)
	}
}

func (w *world) checkQuiescent() {
	c := w.c
	pending := 0
	for _, j := range w.jobs {
		if j.enqRet != 0 && j.finished == 0 {
			pending++
		}
	}
	for _, x := range w.idlers {
		if !x.inCall || !x.task.Blocked() {
			continue
		}
		if x.cancelReq != 0 {
			c.Fail("C18.Q.cancelled-blocked", "a WaitIdle/WatchState caller is blocked at a quiescent point although its context was cancelled")
			return
		}
		if x.errSent != nil || x.errClosed {
			if x.inv != 0 { // WaitIdle only (WatchState ignores errCh by design of this harness: not checked)
				c.Fail("C18.Q.errch-blocked", "WaitIdle is blocked at a quiescent point although its error channel fired")
				return
			}
		}
		if x.inv != 0 && pending == 0 && w.running == 0 {
			c.Fail("C18.Q.waitidle-blocked-while-idle", "WaitIdle is blocked at a quiescent point while the queue is idle")
			return
		}
	}
	// at a quiescent point, with capacity free, no accepted job may still be waiting to start
	waiting := 0
	for _, j := range w.jobs {
		if j.enqRet != 0 && j.started == 0 {
			waiting++
		}
	}
	if waiting > 0 && (w.limit <= 0 || w.running < w.limit) {
		c.Fail("C18.Q.job-not-started", "%d accepted job(s) not started at a quiescent point although only %d of %d slots are busy", waiting, w.running, w.limit)
	}
}

func run(c *core.Ctx) {
	w := &world{c: c}
	c.PanicOracle = "C18.P.panic"
	c.SpinOracle = "C18.SPIN.busy-wait"
	w.limit = c.S.Plan(5) - 1 // -1 and 0: unlimited
	var init []func()
	ninit := 0
	if c.S.PlanP(300) {
		ninit = c.IntRange(1, 3)
	}
	inv := c.Tick()
	for k := 0; k < ninit; k++ {
		j := &job{id: len(w.jobs), producer: -1, seq: k, enqInv: inv}
		w.jobs = append(w.jobs, j)
		init = append(init, w.mkJob(j))
	}
	c.Descf("conc: limit=%d initial=%d", w.limit, ninit)
	w.q = conc.NewConcurrentQueue(w.limit, init...)
	ret := c.Tick()
	for _, j := range w.jobs {
		j.enqRet = ret
	}
	if w.limit < 0 {
		w.limit = 0
	}
	// an Enqueue without jobs reports the counts (also right after the constructor started the initial elements)
	if q, r := w.q.Enqueue(); true {
		w.checkCounts("Enqueue()", q, r)
	}
	np := c.IntRange(1, 3)
	var tasks []*simrt.Task
	for i := 0; i < np; i++ {
		id, n := i, c.IntRange(1, 3)
		tasks = append(tasks, c.Actor("producer", func() { w.producer(id, n) }))
	}
	ni := c.IntRange(0, 2)
	for i := 0; i < ni; i++ {
		x := &idler{id: i}
		w.idlers = append(w.idlers, x)
		x.task = c.Actor("idler", func() { w.runIdler(x) })
		tasks = append(tasks, x.task)
	}
	for round := 0; round < 300; round++ {
		c.S.Quiesce()
		if c.Failed() {
			return
		}
		w.checkQuiescent()
		if c.Failed() {
			return
		}
		alldone := true
		for _, t := range tasks {
			if !t.Done() {
				alldone = false
			}
		}
		if alldone && len(w.gates) == 0 {
			break
		}
		var blocked []*idler
		for _, x := range w.idlers {
			if x.inCall && x.task.Blocked() && x.cancelReq == 0 && x.errSent == nil && !x.errClosed {
				blocked = append(blocked, x)
			}
		}
		if len(w.gates) > 0 && (len(blocked) == 0 || !c.S.FaultP(200)) {
			i := c.S.Plan(len(w.gates))
			g := w.gates[i]
			w.gates = append(w.gates[:i], w.gates[i+1:]...)
			close(g)
			continue
		}
		if len(blocked) > 0 {
			x := blocked[c.S.Fault(len(blocked))]
			if x.errCh != nil && x.inv != 0 && c.S.FaultP(300) && len(x.errCh) == 0 {
				// a nil error on the error channel must not end the wait
				c.S.Count("fault:errch-nil")
				x.errCh <- nil
				c.S.Quiesce()
				if !x.task.Blocked() && !x.task.Done() {
					continue
				}
				continue
			}
			if x.errCh != nil && x.inv != 0 && c.S.FaultP(400) {
				if c.S.Fault(2) == 0 {
					x.errSent = errors.New("errch-error")
					c.S.Count("fault:errch-error")
					x.errCh <- x.errSent
				} else {
					x.errClosed = true
					c.S.Count("fault:errch-close")
					close(x.errCh)
				}
				continue
			}
			x.cancelReq = c.Tick()
			c.S.Count("fault:cancel-blocked")
			x.cancel()
			continue
		}
		c.Stuck("no event to inject but tasks are not done: %s", c.S.StalledString())
		return
	}
	// final: every job ran exactly once
	for _, j := range w.jobs {
		if j.runs != 1 || j.finished == 0 {
			c.Fail("C18.J1.job-lost", "job %d (producer %d) ran %d times by the final quiescent point", j.id, j.producer, j.runs)
			return
		}
	}
	if w.limit == 1 {
		// enqueue order: per producer order, and real-time order of non-overlapping Enqueue calls
		for a := 0; a < len(w.started); a++ {
			for b := a + 1; b < len(w.started); b++ {
				x, y := w.started[a], w.started[b] // x started before y
				if x.producer == y.producer && x.seq > y.seq {
					c.Fail("C18.O1.order", "limit 1: job %d (producer %d, seq %d) started before job %d (seq %d) of the same producer", x.id, x.producer, x.seq, y.id, y.seq)
					return
				}
				if y.enqRet < x.enqInv {
					c.Fail("C18.O1.order", "limit 1: job %d started before job %d although the latter's Enqueue had returned before the former's was called", x.id, y.id)
					return
				}
			}
		}
	}
	// a final WaitIdle returns at once
	if err := w.q.WaitIdle(context.Background(), nil); err != nil {
		c.Fail("C18.I2.unknown-error", "final WaitIdle returned %v", err)
	}
}

func init() {
	core.Register(&core.Scenario{
		Name:  "conc",
		Props: []string{"C18"},
		Run:   run,
		NonTrivial: func(n map[string]int) bool {
			return n["probe:mutex-contended"] > 0 || n["fault:cancel-async"] > 0 || n["fault:cancel-blocked"] > 0
		},
		Rule: "non-trivial: producer/worker critical sections contended or an interruption landed inside WaitIdle/WatchState",
	})
}
