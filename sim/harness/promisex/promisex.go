// Package promisex: scenario "promise" — promise.Promise and
// promise.PromiseContainer under seeded schedules: racing SetResult calls,
// the three await forms with cancellation / error-channel / cancel-channel
// faults, container replacement during await, results whose error is one of
// the context sentinel errors. Oracles for C11.
package promisex

import (
	"context"
	"errors"

	"github.com/aperturerobotics/util/promise"
	"verifsim/harness/core"
	"verifsim/simrt"
)

type result struct {
	v   int
	err error
}

var errE = errors.New("result-error")

func (w *world) drawResult(v int) result {
	switch w.c.S.Plan(6) {
	case 0, 1, 2:
		return result{v, nil}
	case 3:
		return result{v, errE}
	case 4:
		w.c.S.Count("probe:result-error-is-context-canceled")
		return result{v, context.Canceled}
	default:
		return result{v, context.DeadlineExceeded}
	}
}

// attempt is one SetResult call on the plain promise: registered before the
// call, because an awaiter may legitimately see the result before the winning
// SetResult has returned.
type attempt struct {
	r     result
	state int // 0 in flight, 1 returned true, 2 returned false
}

type awaiter struct {
	id        int
	task      *simrt.Task
	form      int // 0 Await 1 AwaitWithErrCh 2 AwaitWithCancelCh
	inCall    bool
	inv       int
	cancel    context.CancelFunc
	cancelReq int
	errCh     chan error
	errSent   error
	errClosed bool
	errNil    bool // a nil error was delivered on the error channel (the channel fired)
	cancelCh  chan struct{}
	ccFired   bool
}

func (x *awaiter) fired() bool {
	return x.cancelReq != 0 || x.errSent != nil || x.errClosed || x.ccFired
}

type world struct {
	c    *core.Ctx
	cont bool
	// plain promise
	p           *promise.Promise[int]
	winner      *result
	nTrue       int
	preResolved bool
	attempts    []*attempt
	seen        []result // results returned to awaiters
	// container
	pc    *promise.PromiseContainer[int]
	hist  core.CellHistory // Val: *slot
	ws    []*awaiter
	gates []chan struct{}
	peeks []*peek
}

// peek is one GetPromise call on the container.
type peek struct {
	inv, ret int
	s        *slot // the slot the returned promise was identified with (root)
	ch       <-chan struct{}
}

func differs(a, b *slot) bool {
	if a.nilP && b.nilP {
		return false
	}
	return a.root() != b.root()
}

// peeker calls GetPromise at seeded moments: the promise it returns is one the
// container held during the call, and the channel is closed once a later call
// has put a different promise in the container.
func (w *world) peeker(n int) {
	c := w.c
	for i := 0; i < n; i++ {
		w.gate()
		pk := &peek{inv: c.Tick()}
		prom, ch := w.pc.GetPromise()
		pk.ret = c.Tick()
		pk.ch = ch
		c.Sub()
		c.S.Count("probe:getpromise")
		if ch == nil {
			c.S.Count("probe:getpromise-unexpected") // (GetPromise is exercised; its contract is not part of property C11)
			return
		}
		var unknownRes *result
		if pp, ok := prom.(*promise.Promise[int]); ok && pp != nil {
			known := false
			for _, wr := range w.hist.Writes {
				if sl := wr.Val.(*slot); sl.root().p == pp {
					known = true
				}
			}
			if !known {
				// a promise the container made itself (SetResult): it is resolved
				if pp.SetResult(-12345, nil) {
					c.S.Count("probe:getpromise-unexpected") // (GetPromise is exercised; its contract is not part of property C11)
					return
				}
				v, err := pp.Await(context.Background())
				unknownRes = &result{v, err}
			}
		} else if prom != nil && !ok {
			c.S.Count("probe:getpromise-unexpected") // (GetPromise is exercised; its contract is not part of property C11)
			return
		}
		for _, wr := range w.hist.Writes {
			sl := wr.Val.(*slot)
			var match bool
			switch {
			case prom == nil:
				match = sl.nilP
			case unknownRes != nil:
				match = sl.p == nil && !sl.nilP && sl.alias == nil && sl.res != nil && sl.res.v == unknownRes.v && sl.res.err == unknownRes.err
			default:
				match = sl.root().p != nil && sl.root().p == prom.(*promise.Promise[int])
			}
			if match && w.hist.Possible(wr, pk.inv, pk.ret, func(o *core.Write) bool { return differs(o.Val.(*slot), sl) }) {
				pk.s = sl
				break
			}
		}
		if pk.s == nil {
			c.S.Count("probe:getpromise-unexpected") // (GetPromise is exercised; its contract is not part of property C11)
			return
		}
		w.peeks = append(w.peeks, pk)
	}
}

// checkPeeks: at the end, every channel handed out by GetPromise before a call that replaced the promise is closed.
func (w *world) checkPeeks() {
	c := w.c
	for _, pk := range w.peeks {
		for _, o := range w.hist.Writes {
			if o.Inv > pk.ret && o.Ret != 0 && differs(o.Val.(*slot), pk.s) {
				select {
				case <-pk.ch:
				default:
					c.S.Count("probe:getpromise-unexpected") // (GetPromise is exercised; its contract is not part of property C11)
					return
				}
				c.S.Count("probe:getpromise-channel-closed-by-replacement")
				break
			}
		}
	}
}

// slot is one thing that was put in the container: a promise (possibly nil) or a direct result.
type slot struct {
	// alias: this slot re-installs the promise object of an earlier slot (results are looked up there)
	alias *slot
	// resolvedAt: stamp taken just before the promise was resolved (0 = resolved before it was installed)
	resolvedAt int
	p          *promise.Promise[int] // nil for SetPromise(nil) and for SetResult
	res        *result               // result once known (SetResult: at once; promise: when resolved)
	nilP       bool
}

func (w *world) await(x *awaiter, target promise.PromiseLike[int]) {
	c := w.c
	ctx, cancel := context.WithCancel(context.Background())
	defer cancel()
	x.cancel = cancel
	var errCh <-chan error
	var cancelCh <-chan struct{}
	if x.form == 1 && c.S.PlanP(800) {
		x.errCh = make(chan error, 1)
		errCh = x.errCh
	}
	if x.form == 2 && c.S.PlanP(800) {
		x.cancelCh = make(chan struct{})
		cancelCh = x.cancelCh
	}
	switch c.S.Fault(10) {
	case 1:
		x.cancelReq = c.Tick()
		c.S.Count("fault:cancel-before")
		cancel()
	case 2, 3:
		k := c.S.Fault(14)
		c.S.GoNamed("canceller", func() {
			core.YieldN("promisex.canceller", k)
			if x.inCall && !x.fired() {
				w.fire(x, c.S.Fault(3))
			}
		})
	}
	c.Descf("awaiter %d: form %d (container=%v)", x.id, x.form, w.cont)
	x.inCall = true
	x.inv = c.Tick()
	var v int
	var err error
	switch x.form {
	case 0:
		v, err = target.Await(ctx)
	case 1:
		v, err = target.AwaitWithErrCh(ctx, errCh)
	default:
		v, err = target.AwaitWithCancelCh(ctx, cancelCh)
	}
	ret := c.Tick()
	x.inCall = false
	w.checkReturn(x, v, err, ret)
}

// fire injects one of the awaiter's own interruption sources.
func (w *world) fire(x *awaiter, pick int) {
	c := w.c
	if x.errCh != nil && pick != 0 {
		if c.S.FaultP(250) {
			x.errNil = true
			c.S.Count("fault:errch-nil")
			x.errCh <- nil
			return
		}
		if pick == 1 {
			x.errSent = errors.New("errch-error")
			c.S.Count("fault:errch-error")
			x.errCh <- x.errSent
		} else {
			x.errClosed = true
			c.S.Count("fault:errch-close")
			close(x.errCh)
		}
		return
	}
	if x.cancelCh != nil && pick != 0 {
		x.ccFired = true
		c.S.Count("fault:cancelch-close")
		close(x.cancelCh)
		return
	}
	x.cancelReq = c.Tick()
	c.S.Count("fault:cancel")
	x.cancel()
}

func (w *world) checkReturn(x *awaiter, v int, err error, ret int) {
	c := w.c
	// interruption outcomes
	if v == 0 {
		switch {
		case err == context.Canceled && (x.cancelReq != 0 || x.errClosed || x.ccFired):
			return
		case err != nil && err == x.errSent:
			return
		case err == nil && x.errNil:
			return // the error channel delivered nil: the await ends with (zero, nil)
		case err == nil && w.cont && x.form == 2 && x.ccFired:
			return // documented: the container's AwaitWithCancelCh returns (zero, nil) once the cancel channel fired
		}
	}
	// result outcomes
	if !w.cont {
		w.seen = append(w.seen, result{v, err})
		if w.winner != nil {
			if v != w.winner.v || err != w.winner.err {
				c.Fail("C11.R1.wrong-result", "awaiter %d returned (%d,%v) but the winning SetResult was (%d,%v)", x.id, v, err, w.winner.v, w.winner.err)
			}
			return
		}
		// no SetResult has returned true yet: the result must be that of a call still in flight
		for _, at := range w.attempts {
			if at.state == 0 && at.r.v == v && at.r.err == err {
				return
			}
		}
		c.Fail("C11.R1.result-without-winner", "awaiter %d returned (%d,%v) but no SetResult call (returned true or still in flight) carries that result and none of its interruption sources fired", x.id, v, err)
		return
	}
	for _, wr := range w.hist.Writes {
		s := wr.Val.(*slot).root()
		// the promise must have been current at a moment of the call at which it already had its result
		from := x.inv
		if s.resolvedAt > from {
			from = s.resolvedAt
		}
		if s.res != nil && s.res.v == v && s.res.err == err && from <= ret && w.hist.Possible(wr, from, ret, nil) {
			return
		}
	}
	c.Fail("C11.R2.container-wrong-result", "container awaiter %d (form %d) returned (%d,%v), which is not the result of any promise that was current (and resolved) at some moment of the call, and none of its own interruption sources explains it", x.id, x.form, v, err)
}

func (w *world) gate() {
	if w.c.S.PlanP(350) {
		g := make(chan struct{})
		w.gates = append(w.gates, g)
		simrt.Recv1("promisex.gate", g)
	}
}

func (w *world) setter(id int) {
	c := w.c
	w.gate()
	r := w.drawResult(id*10 + 7)
	if c.S.PlanP(120) {
		// the zero value is a result like any other
		c.S.Count("probe:zero-value-result")
		r.v = 0
	}
	c.Descf("setter %d: SetResult(%d,%v)", id, r.v, r.err)
	at := &attempt{r: r}
	w.attempts = append(w.attempts, at)
	if w.p.SetResult(r.v, r.err) {
		at.state = 1
		w.nTrue++
		if w.nTrue > 1 || w.preResolved {
			c.Fail("C11.S1.two-winners", "two SetResult calls on one Promise returned true (pre-resolved: %v)", w.preResolved)
		}
		rr := r
		w.winner = &rr
	} else {
		at.state = 2
	}
}

func (w *world) containerSetter(id, nops int) {
	c := w.c
	for i := 0; i < nops; i++ {
		w.gate()
		k := c.S.Plan(7)
		if k == 6 {
			// re-install an earlier, still unresolved promise object (A -> B -> A)
			var old *slot
			for _, wr := range w.hist.Writes {
				if sl := wr.Val.(*slot); sl.p != nil && sl.alias == nil && sl.res == nil {
					old = sl
				}
			}
			if old == nil {
				k = 3
			} else {
				c.Sub() // the promise object may have been created by the other setter
				c.Descf("csetter %d: SetPromise(an earlier, unresolved promise again)", id)
				c.S.Count("probe:promise-reinstalled")
				wr := w.hist.Begin(c, &slot{p: old.p, alias: old})
				w.pc.SetPromise(old.p)
				wr.End(c)
				continue
			}
		}
		switch k {
		case 0: // SetPromise(nil)
			c.Descf("csetter %d: SetPromise(nil)", id)
			wr := w.hist.Begin(c, &slot{nilP: true})
			w.pc.SetPromise(nil)
			wr.End(c)
		case 1, 2: // SetResult
			r := w.drawResult(id*100 + i*10 + 3)
			c.Descf("csetter %d: container.SetResult(%d,%v)", id, r.v, r.err)
			wr := w.hist.Begin(c, &slot{res: &r})
			w.pc.SetResult(r.v, r.err)
			wr.End(c)
		default: // SetPromise(p), p resolved now, later or never
			p := promise.NewPromise[int]()
			c.Pub()
			s := &slot{p: p}
			r := w.drawResult(id*100 + i*10 + 5)
			when := c.S.Plan(4)
			c.Descf("csetter %d: SetPromise(p) result (%d,%v) when=%d", id, r.v, r.err, when)
			if when == 0 {
				p.SetResult(r.v, r.err)
				s.res = &r
			}
			wr := w.hist.Begin(c, s)
			w.pc.SetPromise(p)
			wr.End(c)
			if when == 1 || when == 2 {
				w.gate()
				s.res = &r // set before the call: an awaiter may observe it as soon as SetResult publishes
				s.resolvedAt = c.Tick()
				p.SetResult(r.v, r.err)
				c.S.Count("probe:inner-promise-resolved-late")
			}
		}
	}
}

func (s *slot) root() *slot {
	for s.alias != nil {
		s = s.alias
	}
	return s
}

// current returns the slots that may be the container's current content at a quiescent point.
func (w *world) currentSlot() *slot {
	// at a quiescent point no write is in flight, and writes are totally ordered by their return stamps
	var last *core.Write
	for _, wr := range w.hist.Writes {
		if wr.Ret == 0 {
			return nil
		}
		if last == nil || wr.Ret > last.Ret {
			last = wr
		}
	}
	if last == nil {
		return nil
	}
	// the order of two overlapping writes is unknown; only decide if the last one does not overlap another
	for _, wr := range w.hist.Writes {
		if wr != last && wr.Ret > last.Inv {
			return nil
		}
	}
	return last.Val.(*slot).root()
}

func (w *world) checkQuiescent() {
	c := w.c
	for _, x := range w.ws {
		if !x.inCall || !x.task.Blocked() {
			continue
		}
		if x.cancelReq != 0 {
			c.Fail("C11.Q.cancelled-awaiter-blocked", "awaiter %d (form %d, container=%v) is blocked at a quiescent point although its context was cancelled", x.id, x.form, w.cont)
			return
		}
		if x.errSent != nil || x.errClosed || x.errNil {
			c.Fail("C11.Q.errch-ignored", "awaiter %d (AwaitWithErrCh, container=%v) is blocked at a quiescent point although its error channel fired", x.id, w.cont)
			return
		}
		if x.ccFired {
			c.Fail("C11.Q.cancelch-ignored", "awaiter %d (AwaitWithCancelCh, container=%v) is blocked at a quiescent point although its cancel channel fired", x.id, w.cont)
			return
		}
		if !w.cont {
			if w.winner != nil {
				c.Fail("C11.Q.blocked-with-result", "awaiter %d is blocked at a quiescent point although the promise has a result", x.id)
				return
			}
		} else if s := w.currentSlot(); s != nil && s.res != nil {
			c.Fail("C11.Q.container-blocked-with-result", "container awaiter %d (form %d) is blocked at a quiescent point although the current promise has the result (%d,%v)", x.id, x.form, s.res.v, s.res.err)
			return
		}
		c.S.Count("probe:awaiter-blocked-at-quiescence")
	}
}

func run(c *core.Ctx) {
	w := &world{c: c}
	c.PanicOracle = "C11.P.panic"
	c.SpinOracle = "C11.SPIN.await-busy-loop"
	w.cont = c.S.PlanP(550)
	var tasks []*simrt.Task
	na := c.IntRange(1, 3)
	if c.Thorough {
		na = c.IntRange(1, 5)
	}
	var target promise.PromiseLike[int]
	if w.cont {
		w.pc = promise.NewPromiseContainer[int]()
		target = w.pc
		// the container starts with no promise
		init := &core.Write{Val: &slot{nilP: true}}
		init.Ret = c.Tick()
		w.hist.Writes = append(w.hist.Writes, init)
		ns := c.IntRange(1, 2)
		for i := 0; i < ns; i++ {
			id, nops := i+1, c.IntRange(1, 3)
			tasks = append(tasks, c.Actor("csetter", func() { w.containerSetter(id, nops) }))
		}
		if c.S.PlanP(400) {
			n := c.IntRange(1, 3)
			tasks = append(tasks, c.Actor("peeker", func() { w.peeker(n) }))
		}
	} else {
		w.p = promise.NewPromise[int]()
		if c.S.PlanP(150) {
			// a promise created already resolved: every later SetResult loses, every await returns its result
			r := w.drawResult(5)
			c.Descf("promise pre-resolved with (%d,%v)", r.v, r.err)
			if r.err != nil && c.S.PlanP(500) {
				r.v = 0
				w.p = promise.NewPromiseWithErr[int](r.err)
			} else {
				w.p = promise.NewPromiseWithResult(r.v, r.err)
			}
			w.attempts = append(w.attempts, &attempt{r: r, state: 1})
			rr := r
			w.winner = &rr
			w.preResolved = true
		}
		target = w.p
		ns := c.IntRange(0, 4)
		for i := 0; i < ns; i++ {
			id := i + 1
			tasks = append(tasks, c.Actor("setter", func() { w.setter(id) }))
		}
	}
	for i := 0; i < na; i++ {
		x := &awaiter{id: i, form: c.S.Plan(3)}
		w.ws = append(w.ws, x)
		x.task = c.Actor("awaiter", func() { w.await(x, target) })
		tasks = append(tasks, x.task)
	}
	for round := 0; round < 300; round++ {
		c.S.Quiesce()
		if c.Failed() {
			return
		}
		w.checkQuiescent()
		if c.Failed() {
			return
		}
		alldone := true
		for _, t := range tasks {
			if !t.Done() {
				alldone = false
			}
		}
		if alldone {
			break
		}
		var blocked []*awaiter
		for _, x := range w.ws {
			if x.inCall && x.task.Blocked() && !x.fired() {
				blocked = append(blocked, x)
			}
		}
		if len(w.gates) > 0 && (len(blocked) == 0 || !c.S.FaultP(250)) {
			i := c.S.Plan(len(w.gates))
			g := w.gates[i]
			w.gates = append(w.gates[:i], w.gates[i+1:]...)
			close(g)
			continue
		}
		if len(blocked) > 0 {
			x := blocked[c.S.Fault(len(blocked))]
			c.S.Count("fault:interrupt-blocked")
			w.fire(x, c.S.Fault(3))
			continue
		}
		c.Stuck("no event to inject but tasks are not done: %s", c.S.StalledString())
		return
	}
	if w.cont {
		w.checkPeeks()
	}
	if !w.cont {
		// every result an awaiter saw is the result of the one winning call
		for _, r := range w.seen {
			if w.winner == nil || r.v != w.winner.v || r.err != w.winner.err {
				c.Fail("C11.R1.wrong-result", "an awaiter returned (%d,%v) but the SetResult call that returned true was %+v", r.v, r.err, w.winner)
				return
			}
		}
	}
	if !w.cont && w.winner != nil {
		// a late awaiter sees the same result; a late SetResult loses
		if w.p.SetResult(999, nil) {
			c.Fail("C11.S1.two-winners", "a SetResult after the promise was resolved returned true")
		}
		v, err := w.p.Await(context.Background())
		if v != w.winner.v || err != w.winner.err {
			c.Fail("C11.R1.wrong-result", "late Await returned (%d,%v), winner was (%d,%v)", v, err, w.winner.v, w.winner.err)
		}
	}
}

func init() {
	core.Register(&core.Scenario{
		Name:  "promise",
		Props: []string{"C11"},
		Run:   run,
		NonTrivial: func(n map[string]int) bool {
			return n["probe:awaiter-blocked-at-quiescence"] > 0 || n["fault:cancel"] > 0 || n["probe:inner-promise-resolved-late"] > 0
		},
		Rule: "non-trivial: an awaiter was parked at a quiescent point, an interruption landed inside an await, or an inner promise of the container was resolved after it was installed",
	})
}
