// Package stackx: scenario "stack" — cqueue.AtomicLIFO and
// linkedlist.LinkedList under seeded schedules (scheduling points at every
// atomic load / compare-and-swap and at the list lock); the recorded history
// is checked for linearizability with porcupine against a sequential stack /
// deque model, plus element conservation. C12.
package stackx

import (
	"fmt"
	"sort"
	"time"

	"github.com/anishathalye/porcupine"
	"github.com/aperturerobotics/util/cqueue"
	"github.com/aperturerobotics/util/linkedlist"
	"verifsim/harness/core"
	"verifsim/simrt"
)

const (
	opPush = iota
	opPop
	opPushFront
	opPeek
	opPeekTail
	opIsEmpty
	opReset
)

type in struct {
	op  int
	val int
}
type out struct {
	val int
	ok  bool
}

// Model states are strings with one rune per element (cheap to copy and compare).
func top(s string) (rune, string) {
	r := []rune(s)
	return r[len(r)-1], string(r[:len(r)-1])
}
func head(s string) (rune, string) {
	r := []rune(s)
	return r[0], string(r[1:])
}

// LIFO: Push adds on top, Pop removes the top (zero value when empty).
var lifoModel = porcupine.Model{
	Init: func() interface{} { return "" },
	Step: func(state, input, output interface{}) (bool, interface{}) {
		s := state.(string)
		i, o := input.(in), output.(out)
		switch i.op {
		case opPush:
			return true, s + string(rune(i.val))
		default:
			if len(s) == 0 {
				return o.val == 0, s
			}
			t, rest := top(s)
			return o.val == int(t), rest
		}
	},
	Equal:             func(a, b interface{}) bool { return a.(string) == b.(string) },
	DescribeOperation: func(i, o interface{}) string { return fmt.Sprintf("%v -> %v", i, o) },
}

// deque: Push appends at the tail, PushFront at the head, Pop/Peek at the head.
var dequeModel = porcupine.Model{
	Init: func() interface{} { return "" },
	Step: func(state, input, output interface{}) (bool, interface{}) {
		s := state.(string)
		i, o := input.(in), output.(out)
		switch i.op {
		case opPush:
			return true, s + string(rune(i.val))
		case opPushFront:
			return true, string(rune(i.val)) + s
		case opPop:
			if len(s) == 0 {
				return !o.ok, s
			}
			h, rest := head(s)
			return o.ok && o.val == int(h), rest
		case opPeek:
			if len(s) == 0 {
				return !o.ok, s
			}
			h, _ := head(s)
			return o.ok && o.val == int(h), s
		case opPeekTail:
			if len(s) == 0 {
				return !o.ok, s
			}
			t, _ := top(s)
			return o.ok && o.val == int(t), s
		case opIsEmpty:
			return o.ok == (len(s) == 0), s
		default:
			return true, ""
		}
	},
	Equal:             func(a, b interface{}) bool { return a.(string) == b.(string) },
	DescribeOperation: func(i, o interface{}) string { return fmt.Sprintf("%v -> %v", i, o) },
}

func run(c *core.Ctx) {
	c.PanicOracle = "C12.P.panic"
	c.SpinOracle = "C12.SPIN.livelock"
	lifo := c.S.PlanP(600)
	nact := c.IntRange(2, 4)
	maxops := 4
	if c.Thorough {
		maxops = 5
	}
	var ops []porcupine.Operation
	var stack cqueue.AtomicLIFO[*int]
	list := linkedlist.NewLinkedList[int]()
	if !lifo && c.S.PlanP(300) {
		list = linkedlist.NewLinkedList(901, 902)
		ops = append(ops, porcupine.Operation{ClientId: 9, Input: in{opPush, 901}, Output: out{}, Call: -4, Return: -3})
		ops = append(ops, porcupine.Operation{ClientId: 9, Input: in{opPush, 902}, Output: out{}, Call: -2, Return: -1})
	}
	pushed := map[int]bool{}
	if len(ops) > 0 {
		pushed[901], pushed[902] = true, true
	}
	popped := map[int]int{}
	resetSeen := false
	var tasks []*simrt.Task
	for a := 0; a < nact; a++ {
		id, n := a, c.IntRange(2, maxops)
		tasks = append(tasks, c.Actor("actor", func() {
			for i := 0; i < n; i++ {
				val := (id+1)*100 + i + 1
				var ip in
				var op out
				if lifo {
					if c.S.PlanP(550) {
						ip = in{opPush, val}
					} else {
						ip = in{op: opPop}
					}
				} else {
					k := c.S.Plan(13)
					switch {
					case k < 4:
						ip = in{opPush, val}
					case k < 6:
						ip = in{opPushFront, val}
					case k < 9:
						ip = in{op: opPop}
					case k == 9:
						ip = in{op: opPeek}
					case k == 10:
						ip = in{op: opPeekTail}
					default:
						switch c.S.Plan(3) {
						case 0:
							ip = in{op: opIsEmpty}
						case 1:
							ip = in{op: opReset}
						default:
							ip = in{op: opPeek}
						}
					}
				}
				call := c.Tick()
				if lifo {
					switch ip.op {
					case opPush:
						v := new(int)
						*v = val
						stack.Push(v)
					default:
						if p := stack.Pop(); p != nil {
							op.val = *p
						}
					}
				} else {
					switch ip.op {
					case opPush:
						list.Push(val)
					case opPushFront:
						list.PushFront(val)
					case opPop:
						op.val, op.ok = list.Pop()
					case opPeek:
						op.val, op.ok = list.Peek()
					case opPeekTail:
						op.val, op.ok = list.PeekTail()
					case opIsEmpty:
						op.ok = list.IsEmpty()
					default:
						list.Reset()
						resetSeen = true
					}
				}
				ret := c.Tick()
				if ip.op == opPush || ip.op == opPushFront {
					pushed[ip.val] = true
				}
				if ip.op == opPop && (op.ok || (lifo && op.val != 0)) {
					popped[op.val]++
				}
				ops = append(ops, porcupine.Operation{ClientId: id, Input: ip, Output: op, Call: int64(call), Return: int64(ret)})
			}
		}))
	}
	c.S.Quiesce()
	for _, t := range tasks {
		if !t.Done() {
			c.Fail("C12.Q.operation-blocked", "a stack/list operation is blocked at a quiescent point: %s", c.S.StalledString())
			return
		}
	}
	// final drain (sequential, after everything else)
	for i := 0; i < 64; i++ {
		call := c.Tick()
		var op out
		if lifo {
			if p := stack.Pop(); p != nil {
				op.val = *p
				op.ok = true
			}
		} else {
			op.val, op.ok = list.Pop()
		}
		ret := c.Tick()
		o := op
		if lifo {
			o.ok = false
		}
		ops = append(ops, porcupine.Operation{ClientId: 8, Input: in{op: opPop}, Output: o, Call: int64(call), Return: int64(ret)})
		if !op.ok {
			break
		}
		popped[op.val]++
	}
	if c.S.Counter("probe:cas-failed") > 0 {
		c.S.Count("probe:history-with-failed-cas")
	}
	// conservation: nothing returned twice, nothing invented, nothing lost (unless Reset was used)
	var keys []int
	for v := range popped {
		keys = append(keys, v)
	}
	sort.Ints(keys)
	for _, v := range keys {
		if popped[v] > 1 {
			c.Fail("C12.K1.returned-twice", "element %d was returned by Pop %d times", v, popped[v])
			return
		}
		if !pushed[v] {
			c.Fail("C12.K1.invented", "Pop returned %d, which was never pushed", v)
			return
		}
	}
	if !resetSeen {
		var pk []int
		for v, ok := range pushed {
			if ok {
				pk = append(pk, v)
			}
		}
		sort.Ints(pk)
		for _, v := range pk {
			if popped[v] != 1 {
				c.Fail("C12.K1.lost", "element %d was pushed but never returned by any Pop, including the final drain", v)
				return
			}
		}
	}
	// sequential-looking runs are checked only in a sample (porcupine costs ~1 ms per history)
	if c.S.Counter("probe:cas-failed") == 0 && c.S.Counter("probe:mutex-contended") == 0 && c.S.Plan(8) != 0 {
		return
	}
	c.S.Count("probe:history-checked-with-porcupine")
	model := dequeModel
	if lifo {
		model = lifoModel
	}
	res := porcupine.CheckOperationsTimeout(model, ops, 10*time.Second)
	_ = sort.Ints
	switch res {
	case porcupine.Illegal:
		c.Fail("C12.L1.not-linearizable", "the recorded history of %d operations (lifo=%v) is not linearizable: %v", len(ops), lifo, describe(ops))
	case porcupine.Unknown:
		c.S.Count("probe:linearizability-inconclusive")
	}
}

func describe(ops []porcupine.Operation) string {
	s := ""
	for _, o := range ops {
		s += fmt.Sprintf("[c%d %d..%d %v->%v] ", o.ClientId, o.Call, o.Return, o.Input, o.Output)
	}
	return s
}

func init() {
	core.Register(&core.Scenario{
		Name:  "stack",
		Props: []string{"C12"},
		Run:   run,
		NonTrivial: func(n map[string]int) bool {
			return n["probe:cas-failed"] > 0 || n["probe:mutex-contended"] > 0
		},
		Rule: "non-trivial: at least one compare-and-swap failed because another task moved the top in between, or two list operations contended for the list lock; histories of <= 26 operations checked with porcupine",
	})
}
