// Package oncex: scenario "once" — promise.Once and memo.MemoizeFunc under
// seeded schedules with caller cancellation and scripted function outcomes
// (success, error, late return after cancellation, deaf to cancellation). C16.
package oncex

import (
	"context"
	"errors"
	"fmt"

	"github.com/aperturerobotics/util/memo"
	"github.com/aperturerobotics/util/promise"
	"verifsim/harness/core"
	"verifsim/simrt"
)

type caller struct {
	id        int
	task      *simrt.Task
	inCall    bool
	inv       int
	cancel    context.CancelFunc
	cancelReq int
}

type fnCall struct {
	n int
	// cancelledAtReturn: the context the function was given (the initiating
	// caller's) was already cancelled when the function returned
	cancelledAtReturn bool
	entered           int
	returned          int // 0 while active
	val               int
	err               error
}

// successValue: usually a unique non-zero value, sometimes the zero value (a
// legitimate result: a success must be kept whatever its value is).
func (w *world) successValue(fc *fnCall) int {
	if w.c.S.PlanP(200) {
		w.c.S.Count("probe:zero-value-success")
		return 0
	}
	return 1000 + fc.n
}

type world struct {
	c       *core.Ctx
	once    *promise.Once[int]
	calls   []*fnCall
	active  int
	success *fnCall
	cs      []*caller
	gates   []chan struct{}
}

func (w *world) fn(ctx context.Context) (int, error) {
	c := w.c
	fc := &fnCall{n: len(w.calls) + 1, entered: c.Tick()}
	w.calls = append(w.calls, fc)
	w.active++
	if w.active > 1 {
		c.Fail("C16.O1.two-calls-in-flight", "the Once function is running in %d calls at the same time", w.active)
	}
	if w.success != nil {
		c.Fail("C16.O2.called-after-success", "the Once function was entered again (call %d) after call %d had returned without error", fc.n, w.success.n)
	}
	defer func() {
		w.active--
		fc.returned = c.Tick()
		fc.cancelledAtReturn = ctx.Err() != nil
		if fc.err == nil {
			w.success = fc
		}
	}()
	beh := c.S.Plan(9)
	c.Descf("fn call %d: behaviour %d", fc.n, beh)
	switch beh {
	case 0, 1: // immediate success
		core.YieldN("oncex.fn", c.S.Plan(3))
		fc.val = w.successValue(fc)
		return fc.val, nil
	case 2: // immediate error
		core.YieldN("oncex.fn", c.S.Plan(3))
		fc.err = fmt.Errorf("fn-error-%d", fc.n)
		if c.S.PlanP(120) && ctx.Err() == nil {
			// an ordinary failure whose error value is the context.Canceled sentinel
			// (Resolve treats it as a cancelled attempt: the callers try again)
			c.S.Count("probe:canceled-sentinel-result")
			fc.err = context.Canceled
		}
		return 0, fc.err
	case 3, 4: // wait for the driver's gate or cancellation; on cancellation return ctx.Err()
		g := make(chan struct{})
		w.gates = append(w.gates, g)
		if simrt.Select("oncex.fn-wait", simrt.Recv(ctx.Done()), simrt.Recv(g)) == 0 {
			c.S.Count("probe:fn-saw-cancel")
			core.YieldN("oncex.fn-late", c.S.Plan(4))
			fc.err = ctx.Err()
			return 0, fc.err
		}
		fc.val = w.successValue(fc)
		return fc.val, nil
	case 8: // on cancellation returns an error that wraps the context's error (or a plain deadline-style error)
		g := make(chan struct{})
		w.gates = append(w.gates, g)
		if simrt.Select("oncex.fn-wait", simrt.Recv(ctx.Done()), simrt.Recv(g)) == 0 {
			c.S.Count("probe:fn-saw-cancel")
			core.YieldN("oncex.fn-late", c.S.Plan(4))
			if c.S.PlanP(500) {
				fc.err = fmt.Errorf("fn-aborted-%d: %w", fc.n, ctx.Err())
			} else {
				fc.err = context.DeadlineExceeded
			}
			return 0, fc.err
		}
		fc.val = w.successValue(fc)
		return fc.val, nil
	case 5: // deaf to cancellation: waits for the gate, then succeeds
		g := make(chan struct{})
		w.gates = append(w.gates, g)
		simrt.Recv1("oncex.fn-deaf", g)
		fc.val = w.successValue(fc)
		return fc.val, nil
	case 6: // deaf, then a real error
		g := make(chan struct{})
		w.gates = append(w.gates, g)
		simrt.Recv1("oncex.fn-deaf", g)
		fc.err = fmt.Errorf("fn-error-%d", fc.n)
		return 0, fc.err
	default: // waits for gate or cancel; on cancel still succeeds late
		g := make(chan struct{})
		w.gates = append(w.gates, g)
		simrt.Select("oncex.fn-wait", simrt.Recv(ctx.Done()), simrt.Recv(g))
		core.YieldN("oncex.fn-late", c.S.Plan(4))
		fc.val = w.successValue(fc)
		return fc.val, nil
	}
}

// deadlineCtx behaves like a context whose deadline expires when the wrapped
// context is cancelled: Done is the same channel, Err reports DeadlineExceeded.
type deadlineCtx struct{ context.Context }

func (d deadlineCtx) Err() error {
	if d.Context.Err() != nil {
		return context.DeadlineExceeded
	}
	return nil
}

func (w *world) runCaller(x *caller) {
	c := w.c
	ctx, cancel := context.WithCancel(context.Background())
	defer cancel()
	x.cancel = cancel
	if c.S.PlanP(250) {
		// a context that ends by deadline: once done, Err() is DeadlineExceeded
		c.S.Count("probe:deadline-context")
		ctx = deadlineCtx{ctx}
	}
	switch c.S.Fault(10) {
	case 1:
		x.cancelReq = c.Tick()
		c.S.Count("fault:cancel-before")
		cancel()
	case 2, 3:
		k := c.S.Fault(16)
		c.S.GoNamed("canceller", func() {
			core.YieldN("oncex.canceller", k)
			if x.inCall && x.cancelReq == 0 {
				x.cancelReq = c.Tick()
				c.S.Count("fault:cancel-async")
				cancel()
			}
		})
	}
	c.Descf("caller %d: Resolve", x.id)
	successBefore := w.success
	x.inCall = true
	x.inv = c.Tick()
	v, err := w.once.Resolve(ctx)
	ret := c.Tick()
	x.inCall = false
	switch {
	case err == nil:
		if w.success == nil || v != w.success.val {
			c.Fail("C16.O3.value-not-from-success", "Resolve returned (%d,nil) but the successful call's value is %v", v, w.success)
		}
	case err == context.Canceled && x.cancelReq != 0:
		// own cancellation
	default:
		// a caller with a live context: the error must be one the function itself
		// returned, from a call whose (initiating caller's) context was still live
		// when it returned - a failure caused by the initiator's cancellation is the
		// initiator's business and must make the other callers try again
		ok := false
		leaked := false
		for _, fc := range w.calls {
			if fc.returned != 0 && fc.returned <= ret && fc.err != nil && fc.err == err {
				if fc.cancelledAtReturn && x.cancelReq == 0 {
					leaked = true
				} else {
					ok = true
				}
			}
		}
		if !ok && leaked {
			c.Fail("C16.O6.initiator-cancellation-leaked", "Resolve (caller %d, own context live) returned %v, the error of a function call whose initiating caller's context had been cancelled: the initiator's cancellation prevented this caller from obtaining a result", x.id, err)
		} else if !ok {
			c.Fail("C16.O4.error-from-nowhere", "Resolve (caller %d, context live=%v) returned error %v which no call of the function returned before", x.id, x.cancelReq == 0, err)
		}
		if successBefore != nil && x.cancelReq == 0 {
			c.Fail("C16.O3.error-after-success", "Resolve invoked after the function had succeeded returned error %v with a live context", err)
		}
	}
}

func (w *world) checkQuiescent() {
	c := w.c
	for _, x := range w.cs {
		if !x.inCall || !x.task.Blocked() {
			continue
		}
		if x.cancelReq != 0 {
			c.Fail("C16.Q.cancelled-caller-blocked", "caller %d is blocked in Resolve at a quiescent point although its context was cancelled", x.id)
			return
		}
		if w.active == 0 {
			c.Fail("C16.Q.caller-blocked-without-call", "caller %d with a live context is blocked in Resolve at a quiescent point while no call of the function is in progress (success=%v)", x.id, w.success != nil)
			return
		}
		c.S.Count("probe:caller-blocked-at-quiescence")
	}
}

func runOnce(c *core.Ctx) {
	w := &world{c: c}
	c.PanicOracle = "C16.P.panic"
	c.SpinOracle = "C16.SPIN.busy-wait"
	w.once = promise.NewOnce(w.fn)
	n := c.IntRange(2, 4)
	if c.Thorough {
		n = c.IntRange(2, 6)
	}
	var tasks []*simrt.Task
	for i := 0; i < n; i++ {
		x := &caller{id: i}
		w.cs = append(w.cs, x)
		x.task = c.Actor("caller", func() { w.runCaller(x) })
		tasks = append(tasks, x.task)
	}
	late := 0
	for round := 0; round < 300; round++ {
		c.S.Quiesce()
		if c.Failed() {
			return
		}
		w.checkQuiescent()
		if c.Failed() {
			return
		}
		alldone := true
		for _, t := range tasks {
			if !t.Done() {
				alldone = false
			}
		}
		if alldone && len(w.gates) == 0 {
			if late >= 2 {
				break
			}
			// a later caller: after success it must get the value without a new call;
			// after a failure the function must be entered again
			late++
			ncalls := len(w.calls)
			hadSuccess := w.success != nil
			x := &caller{id: 100 + late}
			w.cs = append(w.cs, x)
			x.task = c.Actor("late-caller", func() {
				w.runCaller(x)
				if hadSuccess && len(w.calls) != ncalls {
					c.Fail("C16.O2.called-after-success", "a Resolve after success entered the function again")
				}
				if !hadSuccess && x.cancelReq == 0 && len(w.calls) == ncalls {
					c.Fail("C16.O5.no-retry-after-failure", "a Resolve with a live context, invoked at a quiescent point after all earlier calls of the function had failed, did not call the function again")
				}
			})
			tasks = append(tasks, x.task)
			continue
		}
		var blocked []*caller
		for _, x := range w.cs {
			if x.inCall && x.task.Blocked() && x.cancelReq == 0 {
				blocked = append(blocked, x)
			}
		}
		if len(w.gates) > 0 && (len(blocked) == 0 || !c.S.FaultP(300)) {
			i := c.S.Plan(len(w.gates))
			g := w.gates[i]
			w.gates = append(w.gates[:i], w.gates[i+1:]...)
			close(g)
			continue
		}
		if len(blocked) > 0 {
			x := blocked[c.S.Fault(len(blocked))]
			x.cancelReq = c.Tick()
			c.S.Count("fault:cancel-blocked")
			x.cancel()
			continue
		}
		if alldone {
			break
		}
		c.Stuck("no event to inject but tasks are not done: %s", c.S.StalledString())
		return
	}
}

func runMemo(c *core.Ctx) {
	c.PanicOracle = "C16.P.panic"
	entries := 0
	var g chan struct{}
	slow := c.S.PlanP(600)
	if slow {
		g = make(chan struct{})
	}
	wantErr := error(nil)
	if c.S.PlanP(300) {
		wantErr = errors.New("memo-error")
	}
	f := memo.MemoizeFunc(func() (int, error) {
		entries++
		if entries > 1 {
			c.Fail("C16.M1.called-twice", "the memoized function was entered %d times", entries)
		}
		if slow {
			simrt.Recv1("oncex.memo-slow", g)
		} else {
			core.YieldN("oncex.memo", c.S.Plan(4))
		}
		return 77, wantErr
	})
	n := c.IntRange(2, 5)
	var tasks []*simrt.Task
	for i := 0; i < n; i++ {
		tasks = append(tasks, c.Actor("memo-caller", func() {
			v, err := f()
			if v != 77 || err != wantErr {
				c.Fail("C16.M2.wrong-result", "a memoized call returned (%d,%v), the function returned (77,%v)", v, err, wantErr)
			}
		}))
	}
	c.S.Quiesce()
	if slow {
		if entries != 1 {
			c.Fail("C16.M1.not-called", "with %d callers blocked the function was entered %d times", n, entries)
			return
		}
		for _, t := range tasks {
			if t.Done() {
				c.Fail("C16.M2.returned-before-result", "a memoized call returned before the function did")
				return
			}
		}
		c.S.Count("probe:memo-callers-waited")
		close(g)
		c.S.Quiesce()
	}
	for _, t := range tasks {
		if !t.Done() {
			c.Fail("C16.M3.caller-stuck", "a memoized call is still blocked after the function returned")
			return
		}
	}
	if entries != 1 {
		c.Fail("C16.M1.called-twice", "entries=%d", entries)
	}
}

func run(c *core.Ctx) {
	if c.S.PlanP(200) {
		runMemo(c)
	} else {
		runOnce(c)
	}
}

func init() {
	core.Register(&core.Scenario{
		Name:  "once",
		Props: []string{"C16"},
		Run:   run,
		NonTrivial: func(n map[string]int) bool {
			return n["probe:caller-blocked-at-quiescence"] > 0 || n["fault:cancel-async"] > 0 || n["probe:memo-callers-waited"] > 0
		},
		Rule: "non-trivial: a Resolve caller was parked while a function call was in flight, a cancellation landed inside Resolve, or memoized callers waited for the single call",
	})
}
