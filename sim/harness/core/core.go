// Package core is the part of the harness shared by all scenarios: the
// scenario registry, per-run context, actor wrappers and result aggregation.
package core

import (
	"context"
	"fmt"
	"runtime/debug"
	"sort"
	"strings"
	"sync"

	"verifsim/simrt"
)

// Scenario is one simulated workload family with its oracles.
type Scenario struct {
	Name  string
	Props []string // properties whose oracles this scenario evaluates
	Run   func(c *Ctx)
	// NonTrivial decides from the run's counters whether it counts as non-trivial.
	NonTrivial func(counts map[string]int) bool
	Rule       string
	// TimerEarly enables the timer-early fault (permille per step) in a fraction of runs.
	MaxSteps int
}

var registry = map[string]*Scenario{}

// Register adds a scenario.
func Register(s *Scenario) { registry[s.Name] = s }

// Lookup finds a scenario.
func Lookup(name string) *Scenario { return registry[name] }

// Names lists scenarios.
func Names() []string {
	var out []string
	for k := range registry {
		out = append(out, k)
	}
	sort.Strings(out)
	return out
}

// Ctx is the per-run context handed to a scenario.
type Ctx struct {
	S        *simrt.Sim
	Thorough bool
	WantDesc bool
	desc     []string
	clock    int
	hmu      sync.Mutex
	// PanicOracle is the oracle id a panic escaping a library call is attributed to.
	PanicOracle string
	// PanicClassify, if set, maps the text of a panic that escaped a library-spawned task to an oracle id.
	PanicClassify func(text string) string
	// SpinOracle is the oracle id a detected busy-wait is attributed to.
	SpinOracle string
	Only       string // restrict oracles to this property ("" = all)
}

// Pub and Sub are the synchronisation a real client would use when it hands an
// object obtained from the library (a release function, a context, a reference)
// from one goroutine to another: Pub after producing it, Sub before another
// task uses it. They are a lock/unlock of one real mutex, so the race detector
// sees a happens-before edge from every earlier Pub to every later Sub. The
// token discipline of the simulator itself deliberately creates no such edge.
func (c *Ctx) Pub() {
	c.hmu.Lock()
	c.hmu.Unlock() //nolint
}

// Sub: see Pub.
func (c *Ctx) Sub() {
	c.hmu.Lock()
	c.hmu.Unlock() //nolint
}

// Descf appends a line to the run's plan description (kept only for sample runs).
func (c *Ctx) Descf(format string, a ...any) {
	if c.WantDesc {
		c.desc = append(c.desc, fmt.Sprintf(format, a...))
	}
	c.S.Logf(format, a...)
}

// Desc returns the plan description.
func (c *Ctx) Desc() []string { return c.desc }

// Fail records a violation of oracle id (ids start with the property id, e.g. "C02.L1...").
func (c *Ctx) Fail(oracle, format string, a ...any) {
	c.S.Fail(oracle, format, a...)
}

// Stuck reports that the driver has no event left to inject although tasks
// are still blocked inside library calls: nothing can ever wake them, i.e. a
// deadlock or lost wake-up in the library. It is attributed to the scenario's
// property (the id is derived from PanicOracle: "C05.P.panic" -> "C05.Q.blocked-forever").
func (c *Ctx) Stuck(format string, a ...any) {
	c.S.Fail(c.blockedOracle(), "no task can make progress but calls have not returned: "+format, a...)
}

func (c *Ctx) blockedOracle() string {
	if c.PanicOracle != "" {
		return PropOf(c.PanicOracle) + ".Q.blocked-forever"
	}
	return "HARNESS.stuck"
}

// Failed reports whether the run already has a violation.
func (c *Ctx) Failed() bool { return c.S.Failed != nil }

// Actor starts a harness task; a panic that escapes f is recorded as a violation
// of PanicOracle (or of oracle if the call site passes one via c.Guard).
func (c *Ctx) Actor(name string, f func()) *simrt.Task {
	return c.S.GoNamed(name, func() {
		defer func() {
			if r := recover(); r != nil {
				if simrt.IsKill(r) {
					panic(r)
				}
				oracle := c.panicOracle()
				if c.PanicClassify != nil {
					if o := c.PanicClassify("actor:" + name + "\n" + fmt.Sprint(r) + "\n" + string(debug.Stack())); o != "" {
						oracle = o
					}
				}
				c.S.Fail(oracle, "panic in %s: %v", name, r)
			}
		}()
		f()
	})
}

// RelayActor runs body(0), …, body(n-1) like one sequential driver, but in some
// runs on two goroutines that take turns, handing over through the simulator
// only (no client-side synchronisation): the order of the calls and the model
// the driver owns stay exact, while the race detector sees calls of the same
// kind made by different goroutines with nothing but the library between them.
func (c *Ctx) RelayActor(name string, n int, body func(i int)) []*simrt.Task {
	if n < 2 || !c.S.PlanP(350) {
		return []*simrt.Task{c.Actor(name, func() {
			for i := 0; i < n && !c.Failed(); i++ {
				body(i)
			}
		})}
	}
	c.S.Count("probe:relay-driver")
	turn := 0
	mk := func(k int) *simrt.Task {
		return c.Actor(fmt.Sprintf("%s/%d", name, k), func() {
			for i := k; i < n; i += 2 {
				c.S.WaitCond(name+".turn", func() bool { return turn >= i || c.Failed() })
				if c.Failed() {
					return
				}
				body(i)
				turn = i + 1
			}
		})
	}
	return []*simrt.Task{mk(0), mk(1)}
}

func (c *Ctx) panicOracle() string {
	if c.PanicOracle != "" {
		return c.PanicOracle
	}
	return "HARNESS.panic"
}

// Guard runs a library call and attributes an escaping panic to oracle.
func (c *Ctx) Guard(oracle, what string, f func()) {
	defer func() {
		if r := recover(); r != nil {
			if simrt.IsKill(r) {
				panic(r)
			}
			c.S.FailNow(oracle, "panic in %s: %v", what, r)
		}
	}()
	f()
}

// IntRange draws a plan integer in [lo,hi].
func (c *Ctx) IntRange(lo, hi int) int { return lo + c.S.Plan(hi-lo+1) }

// YieldN yields k times (a callback "working" for k steps).
func YieldN(site string, k int) {
	for i := 0; i < k; i++ {
		simrt.Yield(site)
	}
}

// CtxTag is a context key used to tag contexts with a small integer identity.
type ctxTagKey struct{}

// TaggedContext returns a cancellable context carrying tag.
func TaggedContext(parent context.Context, tag int) (context.Context, context.CancelFunc) {
	return context.WithCancel(context.WithValue(parent, ctxTagKey{}, tag))
}

// Retag wraps a context so that it carries a new tag: a distinct context with the
// same Done channel, deadline and cancellation as its parent.
func Retag(parent context.Context, tag int) context.Context {
	return context.WithValue(parent, ctxTagKey{}, tag)
}

// Tag extracts the tag of a context derived from TaggedContext (-1 if none).
func Tag(ctx context.Context) int {
	if ctx == nil {
		return -1
	}
	if v, ok := ctx.Value(ctxTagKey{}).(int); ok {
		return v
	}
	return -1
}

// JoinInts formats ints.
func JoinInts(v []int) string {
	var sb strings.Builder
	for i, x := range v {
		if i > 0 {
			sb.WriteByte(',')
		}
		fmt.Fprintf(&sb, "%d", x)
	}
	return sb.String()
}

// PropOf returns the property id of an oracle id ("C02.L1" -> "C02").
func PropOf(oracle string) string {
	if i := strings.IndexByte(oracle, '.'); i > 0 {
		return oracle[:i]
	}
	return oracle
}

// Tick returns the next value of the harness's logical clock: a strict total
// order over harness-visible events (only one task runs at a time, so the
// order is consistent with the order in which the events really happened).
func (c *Ctx) Tick() int {
	c.clock++
	return c.clock
}

// Write is one write to a single-cell object with its invoke/return stamps.
type Write struct {
	Inv, Ret int // Ret == 0 while the write is in flight
	Val      any
}

// CellHistory records the writes to a cell so that "which values could a
// reader have seen during [inv, ret]" can be decided soundly.
type CellHistory struct {
	Writes []*Write
}

// Begin records the invocation of a write.
func (h *CellHistory) Begin(c *Ctx, val any) *Write {
	w := &Write{Inv: c.Tick(), Val: val}
	h.Writes = append(h.Writes, w)
	return w
}

// End records the return of a write.
func (w *Write) End(c *Ctx) { w.Ret = c.Tick() }

// Possible reports whether the cell may have held the value written by w at
// some moment of the interval [inv, ret]: w must have been invoked before ret
// and not definitely overwritten (by a write for which overwrites(o) is true,
// wholly after w and wholly before the earliest such moment).
func (h *CellHistory) Possible(w *Write, inv, ret int, overwrites func(o *Write) bool) bool {
	if w.Inv > ret {
		return false
	}
	t0 := inv
	if w.Inv > t0 {
		t0 = w.Inv
	}
	if w.Ret == 0 {
		return true
	}
	for _, o := range h.Writes {
		if o == w || o.Ret == 0 {
			continue
		}
		if o.Inv > w.Ret && o.Ret < t0 && (overwrites == nil || overwrites(o)) {
			return false
		}
	}
	return true
}
