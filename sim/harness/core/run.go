package core

import (
	"fmt"
	"strings"

	"verifsim/simrt"
)

// Outcome of one simulated run.
type Outcome struct {
	Seed      uint64
	Violation *simrt.Violation
	Hash      uint64
	Steps     int
	SimNs     int64
	Trunc     bool
	Counts    map[string]int
	Strategy  string
	Desc      []string
	Tape      *simrt.Tape
	LogTail   []string
	Stalled   string
	ReplayBad int
}

// RunOpts are the per-run options.
type RunOpts struct {
	Thorough bool
	WantDesc bool
	KeepLog  int
	Replay   *simrt.Tape
	Lenient  bool
	Only     string
}

// RunOne executes one simulated run of sc.
func RunOne(sc *Scenario, seed uint64, o RunOpts) *Outcome {
	var ctx *Ctx
	cfg := simrt.Config{Seed: seed, MaxSteps: sc.MaxSteps, Replay: o.Replay, Lenient: o.Lenient, KeepLog: o.KeepLog}
	s := simrt.Run(cfg, func(s *simrt.Sim) {
		ctx = &Ctx{S: s, Thorough: o.Thorough, WantDesc: o.WantDesc, Only: o.Only}
		defer func() {
			if r := recover(); r != nil {
				if simrt.IsKill(r) {
					panic(r)
				}
				s.Fail(ctx.panicOracle(), "panic in scenario main: %v", r)
			}
		}()
		sc.Run(ctx)
	})
	out := &Outcome{Seed: seed, Hash: s.Hash(), Steps: s.Steps(), SimNs: s.Now(), Trunc: s.Trunc, Counts: s.CountsMap(),
		Strategy: s.StrategyName(), Tape: s.Recorded(), LogTail: s.LogTail(), Stalled: s.StalledString()}
	if ctx != nil {
		out.Desc = ctx.Desc()
	}
	out.ReplayBad = s.Counter("replay:exhausted") + s.Counter("replay:out-of-range")
	switch {
	case s.Failed != nil:
		out.Violation = s.Failed
	case len(s.Panics) > 0:
		p := s.Panics[0]
		or := "HARNESS.panic"
		if ctx != nil {
			or = ctx.panicOracle()
			if ctx.PanicClassify != nil {
				if o := ctx.PanicClassify(p.Value + "\n" + p.Stack); o != "" {
					or = o
				}
			}
		}
		out.Violation = &simrt.Violation{Oracle: or, Msg: fmt.Sprintf("panic in task %s: %s\n%s", p.Task, p.Value, p.Stack), Step: s.Steps()}
	case s.SpinHit != "":
		or := "HARNESS.spin"
		if ctx != nil && ctx.SpinOracle != "" {
			or = ctx.SpinOracle
		} else if ctx != nil && ctx.PanicOracle != "" {
			// no dedicated id: tasks that keep taking steps for ever without any of them
			// finishing or blocking are calls that never return, like blocked-forever
			prop := PropOf(ctx.PanicOracle)
			for _, p := range sc.Props {
				if p == ctx.Only {
					prop = p
				}
			}
			or = prop + ".SPIN.livelock"
		}
		out.Violation = &simrt.Violation{Oracle: or, Msg: "busy-wait detected: " + s.SpinHit + " (sole runnable task for the spin limit of consecutive steps, no timer pending)", Step: s.Steps()}
	case s.Trunc:
		// the run hit the step limit (ordinary runs take a few hundred steps, the limit
		// is 20 000): tasks keep taking steps without the scenario ever finishing — a
		// livelock that escapes the busy-wait detector because it keeps spawning tasks
		or := "HARNESS.step-limit"
		if ctx != nil && ctx.SpinOracle != "" {
			or = ctx.SpinOracle
		} else if ctx != nil && ctx.PanicOracle != "" {
			prop := PropOf(ctx.PanicOracle)
			for _, p := range sc.Props {
				if p == ctx.Only {
					prop = p
				}
			}
			or = prop + ".SPIN.livelock"
		}
		out.Violation = &simrt.Violation{Oracle: or, Msg: fmt.Sprintf("the run did not finish within the step limit (%d steps): calls that never return; still active: %s", s.Steps(), s.StalledString()), Step: s.Steps()}
	case mainBlocked(s.Stalled) && !s.Trunc:
		// the scenario's driver never returned: it is blocked inside a library
		// call that cannot block by contract, and nothing can wake it
		or := "HARNESS.main-stalled"
		if ctx != nil {
			or = ctx.blockedOracle()
		}
		out.Violation = &simrt.Violation{Oracle: or, Msg: "the run ended (no runnable task, no timer) while the driver is blocked inside a library call: " + s.StalledString(), Step: s.Steps()}
	}
	return out
}

// mainBlocked: the scenario's driver is blocked inside a library call (not merely waiting for quiescence).
func mainBlocked(stalled []string) bool {
	for _, t := range stalled {
		if strings.HasPrefix(t, "main@") && !strings.HasSuffix(t, ":quiesce") {
			return true
		}
	}
	return false
}
