// Package bcastx: scenario "bcast" — broadcast.Broadcast under seeded
// schedules: raw waiters (sample state + wait channel in one critical section,
// then block) and Wait(ctx, pred) callers against broadcasters using all three
// lock entry points, with cancellation faults. Oracles for C03.
package bcastx

import (
	"context"
	"errors"

	"github.com/aperturerobotics/util/broadcast"
	"verifsim/harness/core"
	"verifsim/simrt"
)

type handed struct {
	ch  <-chan struct{}
	gen int
}

type waiter struct {
	id        int
	task      *simrt.Task
	kind      int // 0 raw, 1 Wait
	slowPred  bool
	inCall    bool
	cancel    context.CancelFunc
	cancelReq int
	// raw
	gen int
	// Wait
	comp, k     int
	errAt       int // predicate returns predErr when st[comp] == errAt (-1: never)
	predErr     error
	doneWithErr bool
	lastDone    bool
	lastErr     error
	evals       int
}

type world struct {
	c      *core.Ctx
	b      broadcast.Broadcast
	st     [3]int
	gen    int
	handed []handed
	ws     []*waiter
	gates  []chan struct{}
	inCS   int
}

func isClosed(ch <-chan struct{}) bool {
	select {
	case <-ch:
		return true
	default:
		return false
	}
}

// checkB1 runs inside a harness critical section, where it is exact.
func (w *world) checkB1(where string) {
	for _, h := range w.handed {
		cl := isClosed(h.ch)
		if cl != (w.gen > h.gen) {
			w.c.Fail("C03.B1.channel-generation", "%s: a wait channel handed out at broadcast generation %d is closed=%v while the generation is now %d", where, h.gen, cl, w.gen)
			return
		}
	}
	// drop channels that are closed (their generation is over)
	out := w.handed[:0]
	for _, h := range w.handed {
		if w.gen == h.gen {
			out = append(out, h)
		}
	}
	w.handed = out
}

func (w *world) csEnter(where string) {
	w.inCS++
	if w.inCS != 1 {
		w.c.Fail("C03.B0.critical-section-overlap", "%s: two Broadcast critical sections overlap", where)
	}
	w.checkB1(where)
}

func (w *world) csLeave() { w.inCS-- }

func (w *world) sample(getWaitCh func() <-chan struct{}, where string) handed {
	ch := getWaitCh()
	if ch == nil {
		w.c.Fail("C03.B1.nil-channel", "%s: getWaitCh returned nil", where)
		return handed{}
	}
	if isClosed(ch) {
		w.c.Fail("C03.B1.channel-closed-at-birth", "%s: a wait channel obtained inside a critical section (generation %d) is already closed", where, w.gen)
	}
	// (a second getWaitCh call in the same critical section is exercised, but the
	// property does not require it to return the same channel)
	_ = getWaitCh()
	h := handed{ch: ch, gen: w.gen}
	w.handed = append(w.handed, h)
	return h
}

func (w *world) pred(x *waiter) (bool, error) {
	if x.errAt >= 0 && w.st[x.comp] == x.errAt {
		// some predicates report "done" together with their error: the error must still come back unchanged
		return x.doneWithErr, x.predErr
	}
	return w.st[x.comp] >= x.k, nil
}

func (w *world) broadcaster(id, nops int) {
	c := w.c
	for i := 0; i < nops; i++ {
		if c.S.PlanP(300) {
			g := make(chan struct{})
			w.gates = append(w.gates, g)
			simrt.Recv1("bcastx.gate", g)
		}
		comp := c.S.Plan(3)
		mode := c.S.Plan(10) // 0-6 mutate+broadcast, 7 broadcast only, 8 no-op CS, 9 mutate twice
		yields := c.S.Plan(3)
		cb := func(bc func(), getWaitCh func() <-chan struct{}) {
			w.csEnter("broadcaster")
			// the generation counter is advanced before the broadcast call: the
			// close inside it is followed by a scheduling point, and a waiter woken
			// there must already see the new generation
			switch {
			case mode <= 6:
				w.st[comp]++
				core.YieldN("bcastx.cs", yields)
				w.gen++
				bc()
			case mode == 7:
				w.gen++
				bc()
			case mode == 8:
				w.sample(getWaitCh, "broadcaster")
			default:
				w.st[comp]++
				w.gen++
				bc()
				core.YieldN("bcastx.cs", yields)
				w.st[(comp+1)%3]++
				w.gen++
				bc()
			}
			w.checkB1("broadcaster-exit")
			w.csLeave()
		}
		switch c.S.Plan(4) {
		case 0, 1:
			c.Descf("bcaster %d: HoldLock mode=%d comp=%d", id, mode, comp)
			w.b.HoldLock(cb)
		case 2:
			c.Descf("bcaster %d: TryHoldLock mode=%d comp=%d", id, mode, comp)
			if !w.b.TryHoldLock(cb) {
				c.S.Count("probe:tryholdlock-failed")
				w.b.HoldLock(cb)
			}
		default:
			c.Descf("bcaster %d: HoldLockMaybeAsync mode=%d comp=%d", id, mode, comp)
			w.b.HoldLockMaybeAsync(cb)
		}
		if c.Failed() {
			return
		}
	}
}

func (w *world) armCancel(x *waiter, ctx context.Context, cancel context.CancelFunc) {
	c := w.c
	x.cancel = cancel
	x.cancelReq = 0
	switch c.S.Fault(10) {
	case 1:
		x.cancelReq = c.S.Steps() + 1
		c.S.Count("fault:cancel-before")
		cancel()
	case 2, 3:
		k := c.S.Fault(14)
		c.S.GoNamed("canceller", func() {
			core.YieldN("bcastx.canceller", k)
			if x.inCall && x.cancelReq == 0 {
				x.cancelReq = c.S.Steps() + 1
				c.S.Count("fault:cancel-async")
				cancel()
			}
		})
	}
}

func (w *world) rawWaiter(x *waiter) {
	c := w.c
	ctx, cancel := context.WithCancel(context.Background())
	defer cancel()
	var h handed
	c.Descf("waiter %d: raw", x.id)
	w.b.HoldLock(func(_ func(), getWaitCh func() <-chan struct{}) {
		w.csEnter("raw-waiter")
		h = w.sample(getWaitCh, "raw-waiter")
		w.csLeave()
	})
	if c.Failed() {
		return
	}
	x.gen = h.gen
	x.inCall = true
	w.armCancel(x, ctx, cancel)
	core.YieldN("bcastx.raw-gap", c.S.Plan(3)) // the window between sampling and blocking
	i := simrt.Select("bcastx.raw-wait", simrt.Recv(ctx.Done()), simrt.Recv(h.ch))
	x.inCall = false
	if i == 1 {
		if w.gen <= h.gen {
			c.Fail("C03.B1.spurious-wakeup", "raw waiter woke on its wait channel although no broadcast happened since generation %d", h.gen)
		}
		c.S.Count("probe:raw-woken")
	} else if x.cancelReq == 0 {
		c.Fail("HARNESS.raw-cancel", "raw waiter: ctx done without cancel")
	}
}

func (w *world) waitCaller(x *waiter) {
	c := w.c
	ctx, cancel := context.WithCancel(context.Background())
	defer cancel()
	x.comp = c.S.Plan(3)
	x.k = c.IntRange(0, 3)
	x.errAt = -1
	if c.S.PlanP(250) {
		x.errAt = c.IntRange(0, 2)
		x.predErr = errors.New("pred-error")
		x.doneWithErr = c.S.PlanP(400)
	}
	x.slowPred = c.S.PlanP(400)
	c.Descf("waiter %d: Wait(st[%d]>=%d, errAt=%d)", x.id, x.comp, x.k, x.errAt)
	x.inCall = true
	w.armCancel(x, ctx, cancel)
	err := w.b.Wait(ctx, func(bc func(), getWaitCh func() <-chan struct{}) (bool, error) {
		w.csEnter("Wait-predicate")
		x.lastDone, x.lastErr = w.pred(x)
		x.evals++
		if x.slowPred {
			// a predicate that takes a few steps: a cancellation can land while it runs
			core.YieldN("bcastx.pred", 2)
		}
		w.csLeave()
		return x.lastDone, x.lastErr
	})
	x.inCall = false
	switch {
	case err == nil:
		if x.evals == 0 || !x.lastDone || x.lastErr != nil {
			c.Fail("C03.B2.nil-without-true-predicate", "Wait returned nil but its last predicate evaluation returned (%v,%v) (evaluations: %d)", x.lastDone, x.lastErr, x.evals)
		}
	case err == context.Canceled:
		if x.cancelReq == 0 {
			c.Fail("C03.B2.spurious-cancel", "Wait returned context.Canceled although its context was never cancelled")
		} else if x.evals > 0 && x.lastErr != nil {
			c.Fail("C03.B2.predicate-error-replaced", "the last predicate evaluation returned %v, but Wait returned context.Canceled (the context was cancelled while the predicate ran)", x.lastErr)
		}
	case x.predErr != nil && err == x.predErr:
		if x.lastErr != x.predErr {
			c.Fail("C03.B2.error-not-from-predicate", "Wait returned the predicate's error although the last evaluation did not return it")
		}
	default:
		c.Fail("C03.B2.unknown-error", "Wait returned an error that is neither the predicate's error nor context.Canceled: %v", err)
	}
	if x.evals > 1 {
		c.S.Count("probe:wait-rechecked")
	}
}

func (w *world) checkQuiescent() {
	c := w.c
	for _, x := range w.ws {
		if !x.inCall || !x.task.Blocked() {
			continue
		}
		if x.cancelReq != 0 {
			c.Fail("C03.B3.cancelled-waiter-blocked", "waiter %d (kind %d) is blocked at a quiescent point although its context was cancelled", x.id, x.kind)
			return
		}
		if x.kind == 0 {
			if w.gen > x.gen {
				c.Fail("C03.B3.missed-broadcast", "raw waiter %d sampled the state at generation %d and is still blocked at a quiescent point at generation %d", x.id, x.gen, w.gen)
				return
			}
			c.S.Count("probe:raw-blocked-at-quiescence")
		} else {
			ok, err := w.pred(x)
			if ok || err != nil {
				c.Fail("C03.B3.wait-blocked-while-satisfied", "Wait caller %d (st[%d]>=%d, errAt=%d) is blocked at a quiescent point while the guarded state %v satisfies its predicate (or makes it fail)", x.id, x.comp, x.k, x.errAt, w.st)
				return
			}
			c.S.Count("probe:wait-blocked-at-quiescence")
		}
	}
}

func run(c *core.Ctx) {
	w := &world{c: c}
	c.PanicOracle = "C03.B0.panic"
	c.SpinOracle = "C03.SPIN.busy-wait"
	nb := c.IntRange(1, 3)
	nw := c.IntRange(1, 3)
	maxops := 3
	if c.Thorough {
		nw = c.IntRange(1, 5)
		maxops = 5
	}
	var tasks []*simrt.Task
	for i := 0; i < nw; i++ {
		x := &waiter{id: i, kind: c.S.Plan(2)}
		w.ws = append(w.ws, x)
		if x.kind == 0 {
			x.task = c.Actor("raw-waiter", func() { w.rawWaiter(x) })
		} else {
			x.task = c.Actor("wait-caller", func() { w.waitCaller(x) })
		}
		tasks = append(tasks, x.task)
	}
	for i := 0; i < nb; i++ {
		id, nops := i, c.IntRange(1, maxops)
		tasks = append(tasks, c.Actor("broadcaster", func() { w.broadcaster(id, nops) }))
	}
	for round := 0; round < 300; round++ {
		c.S.Quiesce()
		if c.Failed() {
			return
		}
		w.checkQuiescent()
		if c.Failed() {
			return
		}
		alldone := true
		for _, t := range tasks {
			if !t.Done() {
				alldone = false
			}
		}
		if alldone {
			break
		}
		var cancellable []*waiter
		for _, x := range w.ws {
			if x.inCall && x.task.Blocked() && x.cancelReq == 0 {
				cancellable = append(cancellable, x)
			}
		}
		if len(w.gates) > 0 && (len(cancellable) == 0 || !c.S.FaultP(250)) {
			i := c.S.Plan(len(w.gates))
			g := w.gates[i]
			w.gates = append(w.gates[:i], w.gates[i+1:]...)
			close(g)
			continue
		}
		if len(cancellable) > 0 {
			x := cancellable[c.S.Fault(len(cancellable))]
			x.cancelReq = c.S.Steps() + 1
			c.S.Count("fault:cancel-blocked")
			x.cancel()
			continue
		}
		c.Stuck("no event to inject but tasks are not done: %s", c.S.StalledString())
		return
	}
}

func init() {
	core.Register(&core.Scenario{
		Name:  "bcast",
		Props: []string{"C03"},
		Run:   run,
		NonTrivial: func(n map[string]int) bool {
			return n["probe:wait-rechecked"] > 0 || n["probe:raw-woken"] > 0 || n["fault:cancel-async"] > 0
		},
		Rule: "non-trivial: a Wait call re-evaluated its predicate after a wake-up, a raw waiter was woken by a broadcast, or a cancellation landed inside a waiting call",
	})
}
