// Package csyncx: scenario "csync" — csync.Mutex / csync.RWMutex under seeded
// schedules with cancellation and double-release faults. Oracles for C01
// (mutual exclusion, exact holding interval) and C02 (grantable waiters are
// granted, cancelled waiters leave no trace, writer preference).
package csyncx

import (
	"context"
	"sync"

	"github.com/aperturerobotics/util/csync"
	"verifsim/harness/core"
	"verifsim/simrt"
)

type lockAPI interface {
	Lock(ctx context.Context, write bool) (func(), error)
	TryLock(write bool) (func(), bool)
	Locker(write bool) sync.Locker
}

type mtxAPI struct{ m *csync.Mutex }

func (a mtxAPI) Lock(ctx context.Context, _ bool) (func(), error) { return a.m.Lock(ctx) }
func (a mtxAPI) TryLock(_ bool) (func(), bool)                    { return a.m.TryLock() }
func (a mtxAPI) Locker(_ bool) sync.Locker                        { return a.m.Locker() }

type rwAPI struct{ m *csync.RWMutex }

func (a rwAPI) Lock(ctx context.Context, w bool) (func(), error) { return a.m.Lock(ctx, w) }
func (a rwAPI) TryLock(w bool) (func(), bool)                    { return a.m.TryLock(w) }
func (a rwAPI) Locker(w bool) sync.Locker {
	if w {
		return a.m.Locker()
	}
	return a.m.RLocker()
}

type act struct {
	id        int
	task      *simrt.Task
	inLock    bool
	tryWrite  bool // an exclusive TryLock is in flight
	write     bool
	invoke    int
	cancel    context.CancelFunc
	cancelReq int
	holding   bool
	atGate    bool
	gate      chan struct{}
	seenBlk   int // stamp of the first quiescent point at which this Lock call was seen blocked
	done      bool
	opseq     int
}

type world struct {
	wiSeq        int  // counts exclusive acquires that were started (Lock, TryLock, Locker.Lock, driver probes)
	mainTryWrite bool // the driver's exclusive TryLock probe is in flight
	relInFlight  int  // release calls of exclusive holds that have not returned yet
	c            *core.Ctx
	rw           bool
	m            lockAPI
	acts         []*act
	writers      int
	readers      int
	stash        []func() // release functions kept for a later repeated release
	shared       map[bool]sync.Locker
	lockerHeavy  bool
}

func (w *world) excl(write bool) bool { return !w.rw || write }

// otherWriteIntent: somebody holds the lock exclusively, or another actor has an
// exclusive acquire (Lock, TryLock, Locker.Lock) in flight.
func (w *world) otherWriteIntent(a *act) bool {
	if w.writers > 0 || w.mainTryWrite || w.relInFlight > 0 {
		return true
	}
	for _, b := range w.acts {
		if b != a && ((b.inLock && w.excl(b.write)) || b.tryWrite) {
			return true
		}
	}
	return false
}

// enter is called in the same atomic stretch in which the acquire returned.
func (w *world) enter(a *act, write bool, how string) {
	if w.excl(write) {
		w.writers++
	} else {
		w.readers++
	}
	a.holding = true
	a.write = write
	if w.writers > 1 || (w.writers == 1 && w.readers > 0) {
		w.c.Fail("C01.I1.exclusion", "after %s by actor %d (write=%v): %d exclusive holders and %d shared holders at once", how, a.id, write, w.writers, w.readers)
	}
	// C02.L3 writer preference: a read acquire that started after a writer was
	// known to be waiting must not be granted while that writer still waits.
	if w.rw && !write {
		for _, o := range w.acts {
			if o != a && o.inLock && o.write && o.seenBlk > 0 && o.seenBlk < a.invoke && o.cancelReq == 0 {
				w.c.Fail("C02.L3.writer-preference", "reader (actor %d, invoked at %d, via %s) granted while writer (actor %d) has been waiting since before step %d and has neither acquired nor been cancelled", a.id, a.invoke, how, o.id, o.seenBlk)
			}
		}
	}
}

// leave is called immediately before the first call of the release function.
func (w *world) leave(a *act) {
	if w.excl(a.write) {
		w.writers--
	} else {
		w.readers--
	}
	a.holding = false
}

func (w *world) hold(a *act) {
	c := w.c
	if c.S.PlanP(450) {
		// hold until the driver opens the gate at a quiescent point
		a.gate = make(chan struct{})
		a.atGate = true
		simrt.Recv1("csyncx.gate", a.gate)
		a.atGate = false
	} else {
		core.YieldN("csyncx.hold", c.S.Plan(4))
	}
}

func (w *world) release(a *act, rel func()) {
	c := w.c
	w.leave(a)
	// (for the library the lock stays held until the first release call is through)
	excl := w.excl(a.write)
	if excl {
		w.wiSeq++
		w.relInFlight++
	}
	if c.S.FaultP(120) {
		// fault: the release function is called from two goroutines at the same time
		c.S.Count("fault:double-release-concurrent")
		c.Pub()
		if excl {
			w.relInFlight++
		}
		c.S.GoNamed("releaser2", func() {
			c.Sub()
			rel()
			if excl {
				w.relInFlight--
			}
		})
	}
	rel()
	if excl {
		w.relInFlight--
	}
	// fault: repeated release, now and/or later, possibly from another task
	switch c.S.Fault(6) {
	case 1:
		c.S.Count("fault:double-release-now")
		rel()
	case 2:
		c.S.Count("fault:double-release-now")
		rel()
		rel()
	case 3:
		c.Pub() // the release function is handed to whichever task calls it later
		w.stash = append(w.stash, rel)
	}
}

// maybeStashed calls a stashed release function (a repeated release issued
// later, by whichever task gets here, possibly while somebody else holds).
func (w *world) maybeStashed() {
	if len(w.stash) > 0 && w.c.S.FaultP(500) {
		rel := w.stash[0]
		w.stash = w.stash[1:]
		w.c.Sub()
		w.c.S.Count("fault:double-release-later")
		if w.writers+w.readers > 0 {
			w.c.S.Count("probe:double-release-while-held")
		}
		rel()
	}
}

func (w *world) opLock(a *act) {
	c := w.c
	write := !w.rw || c.S.PlanP(450)
	ctx, cancel := context.WithCancel(context.Background())
	a.cancel = cancel
	a.cancelReq = 0
	a.seenBlk = 0
	a.write = write
	mode := c.S.Fault(10)
	switch mode {
	case 1: // cancelled before the call
		a.cancelReq = c.S.Steps() + 1
		cancel()
		c.S.Count("fault:cancel-before")
	case 2, 3: // a canceller task lands the cancellation k steps later
		k := c.S.Fault(12)
		a.opseq++
		seq := a.opseq
		c.S.GoNamed("canceller", func() {
			core.YieldN("csyncx.canceller", k)
			if a.opseq == seq && a.cancel != nil && a.cancelReq == 0 && a.inLock {
				a.cancelReq = c.S.Steps() + 1
				c.S.Count("fault:cancel-async")
				cancel()
			}
		})
	}
	c.Descf("actor %d: Lock(write=%v) cancelmode=%d", a.id, write, mode)
	a.invoke = c.S.Steps()
	a.inLock = true
	if w.excl(write) {
		w.wiSeq++
	}
	rel, err := w.m.Lock(ctx, write)
	a.inLock = false
	a.opseq++
	if err == context.Canceled && a.cancelReq != 0 && rel == nil && w.rw && write && c.S.PlanP(600) {
		// C02: after a cancelled write Lock the lock behaves as if that call had never
		// been made. Probe at once (not at a quiescent point): if no writer holds and
		// no other write acquire is or comes in flight while the probe runs, a read
		// TryLock must succeed.
		seq0, clear0 := w.wiSeq, !w.otherWriteIntent(a)
		c.S.Count("probe:read-probe-after-cancelled-writer")
		rel2, ok := w.m.TryLock(false)
		if ok && rel2 != nil {
			w.enter(a, false, "TryLock(read) after a cancelled write Lock")
			w.leave(a)
			rel2()
		} else if !ok && clear0 && w.wiSeq == seq0 && !w.otherWriteIntent(a) {
			c.Fail("C02.L2.cancelled-writer-left-trace", "a write Lock returned context.Canceled; a read TryLock issued right afterwards was refused although no writer holds the lock and no other write acquire was in flight")
		}
	}
	if err != nil {
		if err != context.Canceled {
			c.Fail("C02.L2.error-kind", "Lock returned error %v", err)
		}
		if a.cancelReq == 0 {
			c.Fail("C02.L2.spurious-cancel", "Lock(actor %d) returned context.Canceled although its context was never cancelled", a.id)
		}
		if rel != nil {
			c.Fail("C01.I0.nonnil-release-on-error", "Lock returned an error together with a non-nil release function")
		}
		a.cancel = nil
		cancel()
		return
	}
	if rel == nil {
		c.Fail("C01.I0.nil-release", "Lock returned nil error and nil release function")
		return
	}
	if a.seenBlk > 0 {
		c.S.Count("probe:granted-after-wait")
	}
	w.enter(a, write, "Lock")
	a.cancel = nil
	w.hold(a)
	w.release(a, rel)
	cancel()
}

func (w *world) opTryLock(a *act) {
	c := w.c
	write := !w.rw || c.S.PlanP(450)
	c.Descf("actor %d: TryLock(write=%v)", a.id, write)
	a.invoke = c.S.Steps()
	if w.excl(write) {
		w.wiSeq++
		a.tryWrite = true
	}
	rel, ok := w.m.TryLock(write)
	a.tryWrite = false
	if !ok {
		if rel != nil {
			c.Fail("C01.I0.nonnil-release-on-false", "TryLock returned false together with a non-nil release function")
		}
		c.S.Count("probe:trylock-op-failed")
		return
	}
	if rel == nil {
		c.Fail("C01.I0.nil-release", "TryLock returned true and a nil release function")
		return
	}
	w.enter(a, write, "TryLock")
	w.hold(a)
	w.release(a, rel)
}

func (w *world) opLocker(a *act) {
	c := w.c
	write := !w.rw || c.S.PlanP(450)
	c.Descf("actor %d: Locker(write=%v).Lock/Unlock", a.id, write)
	l := w.m.Locker(write)
	if w.lockerHeavy || c.S.PlanP(400) {
		// one sync.Locker shared by several goroutines (each Lock is paired with one Unlock)
		if w.shared[write] == nil {
			w.shared[write] = l
			c.Pub() // the Locker object is handed to other goroutines
		}
		c.Sub()
		l = w.shared[write]
		c.S.Count("probe:shared-locker")
	}
	a.invoke = c.S.Steps()
	a.cancel = nil
	a.cancelReq = 0
	a.seenBlk = 0
	a.write = write
	a.inLock = true
	if w.excl(write) {
		w.wiSeq++
	}
	l.Lock()
	a.inLock = false
	w.enter(a, write, "Locker.Lock")
	// (a goroutine never takes a second read lock while holding one: with writer
	// preference that is a client-side deadlock, not a library defect)
	w.hold(a)
	w.leave(a)
	if w.excl(write) {
		w.wiSeq++
		w.relInFlight++
	}
	l.Unlock()
	if w.excl(write) {
		w.relInFlight--
	}
}

func (w *world) runActor(a *act, nops int) {
	for i := 0; i < nops; i++ {
		w.maybeStashed()
		k := w.c.S.Plan(10)
		if w.lockerHeavy && k < 7 {
			k = 9 // locker-heavy runs: most operations go through (shared) sync.Locker adapters
		}
		switch k {
		case 0, 1, 2, 3, 4, 5:
			w.opLock(a)
		case 6, 7, 8:
			w.opTryLock(a)
		default:
			w.opLocker(a)
		}
		if w.c.Failed() {
			return
		}
	}
	a.done = true
}

// quiescent-point oracles ------------------------------------------------

func (w *world) blockedWaiters() (readers, writers []*act) {
	for _, a := range w.acts {
		if a.inLock && a.task.Blocked() {
			if w.excl(a.write) {
				writers = append(writers, a)
			} else {
				readers = append(readers, a)
			}
		}
	}
	return
}

func (w *world) checkQuiescent() {
	c := w.c
	now := c.S.Steps()
	rds, wrs := w.blockedWaiters()
	liveWriters := 0
	for _, a := range wrs {
		if a.cancelReq == 0 {
			liveWriters++
		}
	}
	for _, a := range append(append([]*act{}, rds...), wrs...) {
		if a.seenBlk == 0 {
			a.seenBlk = now
			c.S.Count("probe:waiter-blocked-at-quiescence")
		}
		if a.cancelReq != 0 {
			c.Fail("C02.L1.cancelled-waiter-blocked", "actor %d is still blocked in Lock(write=%v) at a quiescent point although its context was cancelled at step %d", a.id, a.write, a.cancelReq)
			return
		}
	}
	if !w.rw {
		if len(wrs) > 0 && w.writers == 0 {
			c.Fail("C02.L1.mutex-waiter-not-granted", "Mutex: %d caller(s) blocked in Lock at a quiescent point while nobody holds the lock", len(wrs))
		}
		return
	}
	if len(wrs) > 0 && w.writers == 0 && w.readers == 0 {
		c.Fail("C02.L1.writer-not-granted", "RWMutex: %d writer(s) blocked in Lock at a quiescent point while nobody holds the lock", len(wrs))
		return
	}
	if len(rds) > 0 && w.writers == 0 && liveWriters == 0 {
		c.Fail("C02.L1.reader-not-granted", "RWMutex: %d reader(s) blocked in Lock at a quiescent point while no writer holds or waits (read holders: %d)", len(rds), w.readers)
	}
}

// probes: at a quiescent point the harness knows the exact holder set, so
// TryLock must agree with it.
func (w *world) probes(final bool) {
	c := w.c
	_, wrs := w.blockedWaiters()
	try := func(write bool, want bool, id string, why string) {
		if w.excl(write) {
			w.wiSeq++
			w.mainTryWrite = true
		}
		rel, ok := w.m.TryLock(write)
		if ok != want {
			c.Fail(id, "TryLock(write=%v) at a quiescent point returned %v, expected %v: %s (holders: %d exclusive, %d shared; blocked writers: %d)", write, ok, want, why, w.writers, w.readers, len(wrs))
		}
		if ok {
			if w.excl(write) && (w.writers > 0 || w.readers > 0) || (!w.excl(write) && w.writers > 0) {
				// already reported above through want; nothing more
			}
			rel()
		}
		w.mainTryWrite = false
		c.S.Count("probe:trylock-probe")
	}
	if !w.rw {
		id := "C01.I2.mutex-probe"
		if final {
			id = "C02.L2.final-mutex-probe"
		}
		try(true, w.writers == 0, id, "a Mutex is free iff nobody holds it")
		return
	}
	idw, idr := "C01.I2.write-probe", "C01.I2.read-probe"
	if final {
		idw, idr = "C02.L2.final-write-probe", "C02.L2.final-read-probe"
	}
	try(true, w.writers == 0 && w.readers == 0, idw, "a write lock is available iff nobody holds the lock")
	if c.Failed() {
		return
	}
	c.S.Quiesce()
	try(false, w.writers == 0 && len(wrs) == 0, idr, "a read lock is available iff no writer holds or waits")
}

// runCrowd: a rare run with a few hundred write waiters queued behind one holder
// (sizes around 2^8: counters of narrow width wrap there). After the holder
// releases, one of them obtains the lock; the run ends there.
func (w *world) runCrowd() {
	c := w.c
	n := 255 + c.S.Plan(3)
	c.Descf("csync: rw=%v crowd of %d write waiters behind one holder", w.rw, n)
	c.S.Count("probe:crowd-run")
	holder := &act{id: 0}
	w.acts = append(w.acts, holder)
	granted := 0
	holder.task = c.Actor("actor", func() {
		holder.write = true
		holder.inLock = true
		rel, err := w.m.Lock(context.Background(), true)
		holder.inLock = false
		if err != nil || rel == nil {
			c.Fail("C02.L2.error-kind", "Lock returned (%v, nil=%v) on a free lock", err, rel == nil)
			return
		}
		w.enter(holder, true, "Lock")
		holder.gate = make(chan struct{})
		holder.atGate = true
		simrt.Recv1("csyncx.gate", holder.gate)
		holder.atGate = false
		w.leave(holder)
		rel()
	})
	c.S.Quiesce() // the holder has the lock
	for i := 1; i <= n; i++ {
		a := &act{id: i}
		w.acts = append(w.acts, a)
		a.task = c.Actor("actor", func() {
			a.write = true
			a.inLock = true
			rel, err := w.m.Lock(context.Background(), true)
			a.inLock = false
			if err != nil || rel == nil {
				return
			}
			w.enter(a, true, "Lock")
			granted++
			// keeps the lock: the run ends once somebody was granted
		})
	}
	c.S.Quiesce() // everybody is queued
	if c.Failed() {
		return
	}
	w.checkQuiescent()
	if c.Failed() || !holder.atGate {
		return
	}
	close(holder.gate)
	c.S.Quiesce()
	if c.Failed() {
		return
	}
	w.checkQuiescent() // nobody holds the lock and %d callers are blocked: not granted
	if !c.Failed() && granted != 1 {
		c.Fail("C02.L1.mutex-waiter-not-granted", "after the holder released, %d of %d queued writers hold the lock (expected exactly one)", granted, n)
	}
}

func run(c *core.Ctx) {
	w := &world{c: c, shared: map[bool]sync.Locker{}}
	c.PanicOracle = "C01.I0.panic"
	w.rw = c.S.PlanP(600)
	if w.rw {
		w.m = rwAPI{&csync.RWMutex{}}
	} else {
		w.m = mtxAPI{&csync.Mutex{}}
	}
	if c.S.PlanP(1) {
		w.runCrowd()
		return
	}
	w.lockerHeavy = c.S.PlanP(200)
	nact := c.IntRange(2, 4)
	maxops := 3
	if c.Thorough {
		nact = c.IntRange(2, 6)
		maxops = 5
	}
	c.Descf("csync: rw=%v actors=%d", w.rw, nact)
	for i := 0; i < nact; i++ {
		a := &act{id: i}
		w.acts = append(w.acts, a)
		nops := c.IntRange(1, maxops)
		a.task = c.Actor("actor", func() { w.runActor(a, nops) })
	}
	doProbes := c.S.PlanP(500)
	for round := 0; round < 400; round++ {
		c.S.Quiesce()
		if c.Failed() {
			return
		}
		w.checkQuiescent()
		if c.Failed() {
			return
		}
		if doProbes && c.S.PlanP(400) {
			w.probes(false)
			if c.Failed() {
				return
			}
			c.S.Quiesce()
			w.checkQuiescent()
			if c.Failed() {
				return
			}
		}
		alldone := true
		var gates, cancellable []*act
		for _, a := range w.acts {
			if !a.task.Done() {
				alldone = false
			}
			if a.atGate {
				gates = append(gates, a)
			}
			if a.inLock && a.task.Blocked() && a.cancel != nil && a.cancelReq == 0 {
				cancellable = append(cancellable, a)
			}
		}
		if alldone {
			break
		}
		if len(cancellable) > 0 && (len(gates) == 0 || c.S.FaultP(300)) {
			a := cancellable[c.S.Fault(len(cancellable))]
			a.cancelReq = c.S.Steps() + 1
			c.S.Count("fault:cancel-blocked")
			c.Descf("driver: cancel blocked waiter actor %d", a.id)
			a.cancel()
			continue
		}
		if len(gates) > 0 {
			a := gates[c.S.Plan(len(gates))]
			c.Descf("driver: open gate of actor %d", a.id)
			close(a.gate)
			a.atGate = false
			continue
		}
		c.Stuck("no event to inject but actors are not done: %s", c.S.StalledString())
		return
	}
	// final drain: repeated releases that were stashed, then the lock must be free
	c.Sub()
	for _, rel := range w.stash {
		c.S.Count("fault:double-release-later")
		rel()
	}
	w.stash = nil
	c.S.Quiesce()
	if c.Failed() {
		return
	}
	if w.writers != 0 || w.readers != 0 {
		c.Fail("HARNESS.occupancy", "occupancy counters not zero after drain")
		return
	}
	w.probes(true)
}

func init() {
	core.Register(&core.Scenario{
		Name:  "csync",
		Props: []string{"C01", "C02"},
		Run:   run,
		NonTrivial: func(n map[string]int) bool {
			return n["probe:waiter-blocked-at-quiescence"] > 0 || n["fault:cancel-async"] > 0 || n["probe:double-release-while-held"] > 0
		},
		Rule: "a run is non-trivial if a Lock call was parked in its slow path at a quiescent point, a cancellation landed inside a Lock call, or a repeated release happened while another caller held the lock; distinct = distinct event-log hash (schedule+plan+fault choices and sites)",
	})
}
