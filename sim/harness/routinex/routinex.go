// Package routinex: scenarios "routine" (C04, C05: concurrent drivers,
// overlapping supersessions, instances that are slow or deaf to cancellation)
// and "routine14" (C14: a single driver, settling after every call, checked
// against a reference machine for exit status, restart rules and backoff) for
// routine.RoutineContainer and routine.StateRoutineContainer.
package routinex

import (
	"context"
	"errors"
	"fmt"
	"time"

	ubackoff "github.com/aperturerobotics/util/backoff"
	"github.com/aperturerobotics/util/routine"
	cbackoff "github.com/cenkalti/backoff/v4"
	"verifsim/harness/core"
	"verifsim/simrt"
	"verifsim/simrt/stime"
)

// recBackoff is a recording deterministic BackOff.
type recBackoff struct {
	stopAfter int  // return Stop after this many NextBackOff calls (0 = never)
	stopped   bool // the last NextBackOff returned Stop
	w         *world
	intervals []time.Duration
	i         int
	resets    int
	nexts     int
	last      time.Duration
}

func (b *recBackoff) NextBackOff() time.Duration {
	b.nexts++
	if b.stopAfter > 0 && b.nexts > b.stopAfter {
		// the backoff gives up: no further retry, but the exit is reported like any other
		b.stopped = true
		b.last = 0
		b.w.c.S.Count("probe:backoff-stop")
		return cbackoff.Stop
	}
	d := b.intervals[b.i%len(b.intervals)]
	if b.i < len(b.intervals)-1 {
		b.i++
	}
	b.last = d
	if !b.w.single && b.w.c.S.PlanP(300) {
		// a user-supplied backoff may take its time (simulated time here); the
		// container is free to call it with its lock held
		b.w.c.S.Count("probe:backoff-slow")
		b.w.boSleeping++
		stime.Sleep([]time.Duration{time.Millisecond, 20 * time.Millisecond}[b.w.c.S.Plan(2)])
		b.w.boSleeping--
	}
	if b.w.needReset {
		b.w.c.Fail("C14.M3.backoff-not-reset", "NextBackOff was called after a successful exit without Reset in between")
	}
	return d
}
func (b *recBackoff) Reset() {
	b.resets++
	b.i = 0
	b.nexts = 0
	b.stopped = false
	b.w.needReset = false
}

var _ cbackoff.BackOff = (*recBackoff)(nil)

type inst struct {
	n        int
	rid      int // closure id
	ctx      context.Context
	tag      int
	st       int
	entered  int
	returned int
	err      error
	liveExit bool // context was live when the function returned: an exit of the current instance
	exitAt   int64
	cbSeen   []int
}

type watch struct {
	ch     <-chan struct{}
	call   int
	what   string
	closed bool
}

// callRec is the interval of one driver call that may legitimately (re)start the routine.
type callRec struct {
	inv, ret int
	kind     int // 0: RestartRoutine / new routine / new state / SetContext(non-nil); 2: ClearContext
}

type world struct {
	hasObserver bool
	causes      []*callRec
	cbChecked   map[*inst]bool
	boSleeping  int // NextBackOff calls that are taking simulated time (an exit is being recorded)
	c           *core.Ctx
	state       bool // StateRoutineContainer
	rc          *routine.RoutineContainer
	sc          *routine.StateRoutineContainer[int]
	bo          *recBackoff
	retry       bool
	ncb         int
	insts       []*inst
	active      int
	gates       []chan struct{}
	gateOf      map[*inst]chan struct{}
	watches     []*watch
	nextRid     int
	installed   map[int]int // rid -> stamp of the return of the call that installed it
	// model pieces that are exact because one driver owns them
	ctxTag    int // tag of the container's current context (0 = none), owned by driver 0
	ctxs      map[int]context.Context
	cancels   map[int]context.CancelFunc
	hasFn     bool // routine (or state routine) present, owned by driver 1
	curState  int
	cmpNil    bool
	cfgKind   int   // backoff from a configuration: 1 constant 150ms, 2 exponential 100/x2/max 200 (0: none or recording backoff)
	cfgStreak int   // failed exits of the current instance since the last success
	cfgLast   int64 // interval that applies to the latest failed exit
	coarse    bool  // the compare function identifies states n and n+10
	// C14 machine
	single     bool
	needReset  bool
	lastSucc   *inst
	lastFail   *inst
	cbCalls    map[error][]int
	nilCbCalls []int
	exits      []*inst
	byErr      map[error]*inst
}

func (w *world) setContext(ctx context.Context, restart bool) bool {
	if w.state {
		return w.sc.SetContext(ctx, restart)
	}
	return w.rc.SetContext(ctx, restart)
}
func (w *world) clearContext() bool {
	if w.state {
		return w.sc.ClearContext()
	}
	return w.rc.ClearContext()
}
func (w *world) restart() bool {
	if w.state {
		return w.sc.RestartRoutine()
	}
	return w.rc.RestartRoutine()
}
func (w *world) waitExited(ctx context.Context, rinr bool, errCh <-chan error) error {
	if w.state {
		return w.sc.WaitExited(ctx, rinr, errCh)
	}
	return w.rc.WaitExited(ctx, rinr, errCh)
}

func isClosed(ch <-chan struct{}) bool {
	select {
	case <-ch:
		return true
	default:
		return false
	}
}

// instance is the body of every managed function.
func (w *world) instance(rid int, ctx context.Context, st int) (err error) {
	c := w.c
	in := &inst{n: len(w.insts) + 1, rid: rid, ctx: ctx, tag: core.Tag(ctx), st: st, entered: c.Tick()}
	w.insts = append(w.insts, in)
	c.Pub() // the instance's context is inspected by the drivers' oracles
	if w.active > 0 {
		c.Fail("C04.R1.two-instances", "instance %d of the managed function entered while %d earlier instance(s) have not returned", in.n, w.active)
	}
	if w.single {
		if w.lastSucc != nil && w.lastSucc.rid == rid {
			c.Fail("C14.M1.rerun-after-success", "instance %d entered although instance %d of the same routine had returned nil and neither RestartRoutine nor a new routine/state followed", in.n, w.lastSucc.n)
		}
		if w.lastFail != nil && w.lastFail.rid == rid {
			if !w.retry {
				c.Fail("C14.M2.rerun-after-error", "instance %d entered although instance %d had returned an error, retry is not configured and no restarting call followed", in.n, w.lastFail.n)
			} else if w.bo != nil && c.S.Now() < w.lastFail.exitAt+int64(w.bo.last) {
				c.Fail("C14.M3.retry-too-early", "instance %d entered at t=%dms, before the backoff interval %v after the failed exit at t=%dms had passed", in.n, c.S.Now()/1e6, w.bo.last, w.lastFail.exitAt/1e6)
			} else if w.bo == nil && w.cfgKind != 0 && c.S.Now() < w.lastFail.exitAt+w.cfgLast {
				c.Fail("C14.M3.retry-too-early", "instance %d entered at t=%dms, before the configured backoff interval of %dms after the failed exit at t=%dms had passed", in.n, c.S.Now()/1e6, w.cfgLast/1e6, w.lastFail.exitAt/1e6)
			}
			w.lastFail = nil
		}
	}
	if !w.single {
		// C14 under concurrency: the previous instance of this routine exited as the
		// current one (live context) and no restarting call was in flight since
		var prev *inst
		for j := len(w.insts) - 2; j >= 0; j-- {
			if w.insts[j].rid == rid {
				prev = w.insts[j]
				break
			}
		}
		if prev != nil && prev.returned != 0 && prev.liveExit {
			if prev.err == nil && !w.causeBetween(prev.returned, in.entered, 0) {
				c.Fail("C14.M1.rerun-after-success", "instance %d entered although instance %d of the same routine had returned nil as the current instance and no RestartRoutine / new routine / new state call was made or in flight since", in.n, prev.n)
			}
			if prev.err != nil && !w.retry && !w.causeBetween(prev.returned, in.entered, 1) {
				c.Fail("C14.M2.rerun-after-error", "instance %d entered although instance %d had returned an error as the current instance, retry is not configured and no restarting call was made or in flight since", in.n, prev.n)
			}
		}
	}
	w.active++
	defer func() {
		w.active--
		in.returned = c.Tick()
		in.err = err
		in.exitAt = c.S.Now()
		in.liveExit = ctx.Err() == nil
		if w.single && in.liveExit {
			w.exits = append(w.exits, in)
			if w.cfgKind != 0 {
				// model of the configured backoff: a success resets it, every failed exit of the current instance takes one step
				if err == nil {
					w.cfgStreak = 0
				} else {
					w.cfgLast = w.cfgInterval(w.cfgStreak)
					w.cfgStreak++
				}
			}
			if err == nil {
				w.lastSucc = in
				w.needReset = w.retry && w.bo != nil
			} else {
				w.lastFail = in
				w.byErr[err] = in
			}
		}
	}()
	beh := c.S.Plan(8)
	k := c.S.Plan(4)
	c.Descf("instance %d (routine %d, ctx %d, state %d): behaviour %d", in.n, rid, in.tag, st, beh)
	uerr := fmt.Errorf("inst-%d-error", in.n)
	switch beh {
	case 0:
		core.YieldN("routinex.inst", k)
		return nil
	case 1:
		core.YieldN("routinex.inst", k)
		if w.single && c.S.PlanP(150) && ctx.Err() == nil {
			// an ordinary failure whose error value is the context.Canceled sentinel
			c.S.Count("probe:canceled-sentinel-result")
			return context.Canceled
		}
		return uerr
	case 2, 3, 4: // run until cancelled, then return after k more steps or after some simulated time
		simrt.Recv1("routinex.inst-run", ctx.Done())
		c.S.Count("probe:instance-cancelled")
		if !w.single && c.S.PlanP(250) {
			// exit latency in simulated time: overlaps with retry timers and later calls
			c.S.Count("probe:instance-slow-exit-simtime")
			stime.Sleep([]time.Duration{10 * time.Millisecond, 120 * time.Millisecond, 300 * time.Millisecond}[c.S.Plan(3)])
		} else {
			core.YieldN("routinex.inst-late", k)
		}
		return ctx.Err()
	case 5: // deaf to cancellation until the driver opens the gate
		g := make(chan struct{})
		w.gates = append(w.gates, g)
		simrt.Recv1("routinex.inst-deaf", g)
		c.S.Count("probe:instance-deaf")
		if ctx.Err() != nil {
			return ctx.Err()
		}
		return uerr
	default: // runs until cancelled or until the gate opens (then succeeds or fails)
		g := make(chan struct{})
		w.gates = append(w.gates, g)
		if simrt.Select("routinex.inst-run", simrt.Recv(ctx.Done()), simrt.Recv(g)) == 0 {
			core.YieldN("routinex.inst-late", k)
			return ctx.Err()
		}
		if beh == 6 {
			return nil
		}
		return uerr
	}
}

// cause runs a driver call that is allowed to start the routine again and records its interval.
func (w *world) cause(kind int, f func()) {
	r := &callRec{inv: w.c.Tick(), kind: kind}
	w.causes = append(w.causes, r)
	f()
	r.ret = w.c.Tick()
}

// causeBetween: a restarting call of kind <= maxKind was in flight at some moment of [from, to].
func (w *world) causeBetween(from, to, maxKind int) bool {
	for _, r := range w.causes {
		if r.kind <= maxKind && r.inv < to && (r.ret == 0 || r.ret > from) {
			return true
		}
	}
	return false
}

// cfgInterval: the k-th interval (k = failures since the last success) of the configured backoff.
func (w *world) cfgInterval(k int) int64 {
	if w.cfgKind == 3 {
		d := 100 * time.Millisecond
		for i := 0; i < k; i++ {
			d = time.Duration(float64(d) * 0.5)
		}
		return int64(d)
	}
	if w.cfgKind == 2 {
		d := int64(100 * time.Millisecond)
		for i := 0; i < k && d < int64(200*time.Millisecond); i++ {
			d *= 2
		}
		if d > int64(200*time.Millisecond) {
			d = int64(200 * time.Millisecond)
		}
		return d
	}
	return int64(150 * time.Millisecond)
}

func (w *world) newRoutine() (int, routine.Routine, routine.StateRoutine[int]) {
	w.nextRid++
	rid := w.nextRid
	return rid, func(ctx context.Context) error { return w.instance(rid, ctx, 0) },
		func(ctx context.Context, st int) error { return w.instance(rid, ctx, st) }
}

// addWatch registers a waitReturn channel; inv is the stamp taken before the call was invoked.
func (w *world) addWatch(ch <-chan struct{}, what string, inv int) {
	if ch == nil {
		return
	}
	w.watches = append(w.watches, &watch{ch: ch, call: inv, what: what})
}

// onStep probes the waitReturn channels after every scheduler step (C04.R2).
func (w *world) onStep() {
	for _, wt := range w.watches {
		if wt.closed || !isClosed(wt.ch) {
			continue
		}
		wt.closed = true
		w.c.S.Count("probe:waitreturn-closed")
		for _, in := range w.insts {
			if in.entered < wt.call && in.returned == 0 {
				w.c.Fail("C04.R2.waitreturn-early", "the channel returned by %s closed while instance %d, which had entered before that call, has not returned", wt.what, in.n)
				return
			}
		}
	}
}

// S1 checks (C05), evaluated at the return of a superseding call.
func (w *world) checkCancelledBefore(inv int, what string, pred func(in *inst) bool) {
	w.c.Sub()
	for _, in := range w.insts {
		if in.entered < inv && in.returned == 0 && pred(in) && in.ctx.Err() == nil {
			w.c.Fail("C05.S1.superseded-not-cancelled", "%s returned, but instance %d (ctx %d), which it superseded, still has a live context", what, in.n, in.tag)
			return
		}
	}
}

func (w *world) mkCtx() int {
	tag := len(w.ctxs) + 1
	ctx, cancel := core.TaggedContext(context.Background(), tag)
	w.ctxs[tag] = ctx
	w.cancels[tag] = cancel
	return tag
}

// ---- drivers of the concurrent scenario ----

func (w *world) ctxStep(i int) {
	c := w.c
	{
		w.maybeGate()
		op := c.S.Plan(8)
		if i == 0 && op > 2 && c.S.PlanP(800) {
			op = 0 // most runs start by giving the container a context
		}
		switch op {
		case 0, 1, 2:
			var tag int
			if w.ctxTag > 0 && c.S.PlanP(250) {
				// a distinct context that merely wraps the current one (same Done channel): it is a new context all the same
				tag = len(w.ctxs) + 1
				w.ctxs[tag] = core.Retag(w.ctxs[w.ctxTag], tag)
				w.cancels[tag] = w.cancels[w.ctxTag]
				c.S.Count("probe:wrapped-context")
			} else {
				tag = w.mkCtx()
			}
			restart := c.S.PlanP(400)
			c.Descf("ctx-driver: SetContext(ctx%d, restart=%v)", tag, restart)
			inv := c.Tick()
			// (a context change also restarts an instance whose exit is not yet recorded)
			w.cause(0, func() { w.setContext(w.ctxs[tag], restart) })
			w.ctxTag = tag
			w.checkCancelledBefore(inv, "SetContext(other)", func(in *inst) bool { return in.tag != tag })
		case 3:
			if w.ctxTag > 0 {
				c.Descf("ctx-driver: SetContext(same ctx%d, restart=true)", w.ctxTag)
				w.cause(0, func() { w.setContext(w.ctxs[w.ctxTag], true) })
			}
		case 4, 5:
			c.Descf("ctx-driver: ClearContext")
			inv := c.Tick()
			w.cause(2, func() { w.clearContext() })
			w.ctxTag = 0
			w.checkCancelledBefore(inv, "ClearContext", func(in *inst) bool { return true })
		case 6, 7:
			if op == 7 && !w.hasObserver {
				core.YieldN("routinex.pause", c.S.Plan(3))
				break
			}
			// root-cancel: the container's context is cancelled behind its back
			if w.ctxTag > 0 && c.S.FaultP(500) {
				c.Descf("ctx-driver: root-cancel ctx%d", w.ctxTag)
				c.S.Count("fault:root-cancel")
				w.cancels[w.ctxTag]()
				w.ctxTag = -w.ctxTag // cancelled: the container may or may not have noticed
			}
		default:
			core.YieldN("routinex.pause", c.S.Plan(3))
		}
	}
}

func (w *world) fnStep(i int) {
	c := w.c
	{
		w.maybeGate()
		k := c.S.Plan(8)
		if i == 0 && c.S.PlanP(800) {
			k = 0 // most runs start by installing a routine
		}
		if w.state && i == 1 && w.curState == 0 && c.S.PlanP(800) {
			k = 3 // ... and a non-empty state
		}
		switch {
		case !w.state && k < 6, w.state && k < 2:
			rid, r, sr := w.newRoutine()
			if i > 0 && c.S.PlanP(150) {
				r, sr = nil, nil
			}
			inv := c.Tick()
			var ch <-chan struct{}
			var reset bool
			if w.state {
				c.Descf("fn-driver: SetStateRoutine(routine %d nil=%v)", rid, sr == nil)
				w.cause(0, func() { ch, reset, _ = w.sc.SetStateRoutine(sr) })
				w.hasFn = sr != nil
			} else {
				c.Descf("fn-driver: SetRoutine(routine %d nil=%v)", rid, r == nil)
				w.cause(0, func() { ch, reset = w.rc.SetRoutine(r) })
				w.hasFn = r != nil
			}
			w.installed[rid] = c.Tick()
			w.addWatch(ch, "SetRoutine", inv)
			if reset {
				c.S.Count("probe:reset-true")
				w.checkCancelledBefore(inv, "SetRoutine(reset=true)", func(in *inst) bool {
					st, ok := w.installed[in.rid]
					return ok && st < inv && in.rid != rid
				})
			}
		case w.state && k < 6:
			st := c.S.Plan(4) // 0 = empty state
			if i == 1 && st == 0 {
				st = 1
			}
			if w.coarse && st != 0 && c.S.PlanP(400) {
				st += 10
			}
			inv := c.Tick()
			if c.S.PlanP(250) {
				c.Descf("fn-driver: SwapValue(->%d)", st)
				var ch <-chan struct{}
				var reset bool
				w.cause(0, func() { _, ch, _, reset, _ = w.sc.SwapValue(func(int) int { return st }) })
				w.curState = w.sc.GetState()
				w.addWatch(ch, "SwapValue", inv)
				_ = reset
			} else {
				c.Descf("fn-driver: SetState(%d)", st)
				var ch <-chan struct{}
				var changed, reset bool
				w.cause(0, func() { ch, changed, reset, _ = w.sc.SetState(st) })
				w.curState = w.sc.GetState()
				w.addWatch(ch, "SetState", inv)
				if reset && changed {
					c.S.Count("probe:reset-true")
					w.checkCancelledBefore(inv, "SetState(reset=true)", func(in *inst) bool { return in.st != st })
				}
			}
		default:
			core.YieldN("routinex.pause", c.S.Plan(3))
		}
	}
}

func (w *world) restartStep(i int) {
	c := w.c
	{
		w.maybeGate()
		if c.S.PlanP(700) {
			c.Descf("restart-driver: RestartRoutine")
			inv := c.Tick()
			var restarted bool
			w.cause(0, func() { restarted = w.restart() })
			if restarted {
				c.S.Count("probe:restart-true")
				w.checkCancelledBefore(inv, "RestartRoutine(true)", func(in *inst) bool { return true })
			}
		} else {
			core.YieldN("routinex.pause", c.S.Plan(3))
		}
	}
}

func (w *world) maybeGate() {
	if w.c.S.PlanP(250) {
		g := make(chan struct{})
		w.gates = append(w.gates, g)
		simrt.Recv1("routinex.driver-gate", g)
	}
}

// stateDriver: SetState calls concurrent with the fn-driver's SetStateRoutine / SetState.
func (w *world) stateDriver(nops int) {
	c := w.c
	for i := 0; i < nops && !c.Failed(); i++ {
		w.maybeGate()
		st := 1 + c.S.Plan(3)
		if w.coarse && c.S.PlanP(400) {
			st += 10
		}
		c.Descf("state-driver: SetState(%d)", st)
		c.S.Count("probe:concurrent-setstate")
		inv := c.Tick()
		var ch <-chan struct{}
		w.cause(0, func() { ch, _, _, _ = w.sc.SetState(st) })
		w.addWatch(ch, "SetState", inv)
	}
}

// observer: WaitExited calls from a bystander. The call is interrupted through
// its context when the driver loop opens the gate that belongs to it.
func (w *world) observer(nops int) {
	c := w.c
	for i := 0; i < nops && !c.Failed(); i++ {
		w.maybeGate()
		ctx, cancel := context.WithCancel(context.Background())
		g := make(chan struct{})
		w.gates = append(w.gates, g)
		c.Actor("observer-interrupt", func() {
			simrt.Recv1("routinex.observer-gate", g)
			cancel()
		})
		rinr := c.S.PlanP(600)
		c.Descf("observer: WaitExited(returnIfNotRunning=%v)", rinr)
		c.S.Count("probe:observer-waitexited")
		_ = w.waitExited(ctx, rinr, nil)
		cancel()
	}
}

func (w *world) checkQuiescentConcurrent() {
	c := w.c
	// no timer may fire while the quiescent-point oracles run (GetState yields)
	saved := c.S.TimerEarlyPermille
	c.S.TimerEarlyPermille = 0
	defer func() { c.S.TimerEarlyPermille = saved }()
	c.Sub()
	// C14 (exit callbacks) under concurrency: an instance that returned its own
	// error with a live context, with no driver call in flight or invoked since,
	// exited as the current instance: by now every exit callback has seen it once
	if w.cbChecked == nil {
		w.cbChecked = map[*inst]bool{}
	}
	now := c.Tick()
	for _, in := range w.insts {
		if in.returned == 0 || w.cbChecked[in] || w.boSleeping > 0 {
			continue
		}
		w.cbChecked[in] = true
		if !in.liveExit || in.err == nil || in.err == context.Canceled || in.err == context.DeadlineExceeded {
			continue
		}
		if w.causeBetween(in.returned, now, 2) {
			continue
		}
		c.S.Count("probe:current-exit-concurrent")
		seen := make([]int, w.ncb)
		for _, idx := range w.cbCalls[in.err] {
			seen[idx]++
		}
		for i, n := range seen {
			if n != 1 {
				c.Fail("C14.M5.exit-callback", "instance %d returned %v as the current instance (no driver call since), but exit callback %d saw that exit %d times", in.n, in.err, i, n)
				return
			}
		}
	}
	var live []*inst
	for _, in := range w.insts {
		if in.returned == 0 && in.ctx.Err() == nil {
			live = append(live, in)
		}
	}
	if len(live) > 1 {
		c.Fail("C05.S2.two-live-instances", "at a quiescent point %d instances with a live context exist (instances %d and %d)", len(live), live[0].n, live[1].n)
		return
	}
	if len(live) == 1 {
		in := live[0]
		c.S.Count("probe:live-instance-at-quiescence")
		if w.ctxTag == 0 {
			c.Fail("C05.S2.live-without-context", "at a quiescent point instance %d has a live context although the container's context was cleared", in.n)
			return
		}
		if w.ctxTag > 0 && in.tag != w.ctxTag {
			c.Fail("C05.S2.stale-context", "at a quiescent point the surviving instance %d derives from context %d, the container's current context is %d", in.n, in.tag, w.ctxTag)
			return
		}
		if !w.hasFn {
			c.Fail("C05.S2.live-without-routine", "at a quiescent point instance %d has a live context although the routine was set to nil", in.n)
			return
		}
		if w.state {
			cur := w.sc.GetState()
			if cur == 0 {
				c.Fail("C05.S2.live-with-empty-state", "at a quiescent point instance %d has a live context although the state is empty", in.n)
				return
			}
			if in.st != cur {
				c.Fail("C05.S2.stale-state", "at a quiescent point the surviving instance %d was given state %d, the most recently stored state is %d", in.n, in.st, cur)
				return
			}
		}
	}
}

func newWorld(c *core.Ctx, single bool) *world {
	w := &world{c: c, single: single, ctxs: map[int]context.Context{}, cancels: map[int]context.CancelFunc{}, installed: map[int]int{},
		cbCalls: map[error][]int{}, byErr: map[error]*inst{}, gateOf: map[*inst]chan struct{}{}}
	c.PanicOracle = "C05.P.panic"
	w.state = c.S.PlanP(450)
	var opts []routine.Option
	w.retry = c.S.PlanP(450)
	if w.retry {
		if c.S.PlanP(700) {
			w.bo = &recBackoff{w: w, intervals: []time.Duration{100 * time.Millisecond, 200 * time.Millisecond, 400 * time.Millisecond}}
			if single && c.S.PlanP(300) {
				w.bo.stopAfter = c.IntRange(1, 2)
			}
			opts = append(opts, routine.WithBackoff(w.bo))
		} else if single && c.S.PlanP(250) {
			// an exponential configuration with a multiplier below one (legal: the intervals shrink): 100, 50, 25, … ms
			w.cfgKind = 3
			opts = append(opts, routine.WithRetry(&ubackoff.Backoff{BackoffKind: ubackoff.BackoffKind_BackoffKind_EXPONENTIAL, Exponential: &ubackoff.Exponential{InitialInterval: 100, Multiplier: 0.5, MaxInterval: 200}}))
		} else if single && c.S.PlanP(500) {
			// the library's exponential backoff from a configuration: 100, 200, 200, … ms, back to 100 after a success
			w.cfgKind = 2
			opts = append(opts, routine.WithRetry(&ubackoff.Backoff{BackoffKind: ubackoff.BackoffKind_BackoffKind_EXPONENTIAL, Exponential: &ubackoff.Exponential{InitialInterval: 100, Multiplier: 2, MaxInterval: 200}}))
		} else {
			w.cfgKind = 1
			opts = append(opts, routine.WithRetry(&ubackoff.Backoff{BackoffKind: ubackoff.BackoffKind_BackoffKind_CONSTANT, Constant: &ubackoff.Constant{Interval: 150}}))
		}
	}
	w.ncb = c.S.Plan(3)
	for i := 0; i < w.ncb; i++ {
		idx := i
		opts = append(opts, routine.WithExitCb(func(err error) {
			if err == nil {
				w.nilCbCalls = append(w.nilCbCalls, idx)
			} else {
				w.cbCalls[err] = append(w.cbCalls[err], idx)
				if !w.single && err != context.Canceled && err != context.DeadlineExceeded {
					n := 0
					for _, j := range w.cbCalls[err] {
						if j == idx {
							n++
						}
					}
					if n > 1 {
						c.Fail("C14.M5.exit-callback", "the exit with error %v was reported %d times to exit callback %d", err, n, idx)
					}
				}
			}
		}))
	}
	if w.state {
		var cmp func(a, b int) bool
		w.cmpNil = true
		if c.S.PlanP(600) {
			cmp = func(a, b int) bool { return a == b }
			w.cmpNil = false
			if !single && c.S.PlanP(400) {
				// a coarser equality: states n and n+10 are equal but distinct
				// (storing an "equal" state changes nothing, not even GetState)
				w.coarse = true
				cmp = func(a, b int) bool { return a%10 == b%10 }
			}
		}
		w.sc = routine.NewStateRoutineContainer(cmp, opts...)
	} else {
		w.rc = routine.NewRoutineContainer(opts...)
	}
	c.Descf("routine: state=%v retry=%v recordingBackoff=%v exitCbs=%d single=%v", w.state, w.retry, w.bo != nil, w.ncb, single)
	c.S.OnStep = w.onStep
	return w
}

func runConcurrent(c *core.Ctx) {
	w := newWorld(c, false)
	if c.S.PlanP(400) {
		c.S.TimerEarlyPermille = 30
	}
	maxops := 4
	if c.Thorough {
		maxops = 7
	}
	var tasks []*simrt.Task
	n0, n1, n2 := c.IntRange(1, maxops), c.IntRange(1, maxops), c.IntRange(0, maxops)
	tasks = append(tasks, c.RelayActor("ctx-driver", n0, w.ctxStep)...)
	tasks = append(tasks, c.RelayActor("fn-driver", n1, w.fnStep)...)
	if n2 > 0 {
		tasks = append(tasks, c.RelayActor("restart-driver", n2, w.restartStep)...)
	}
	if w.state && c.S.PlanP(400) {
		// a second goroutine stores states while the fn-driver installs routines
		// and states (GetState is read back from the container, so no model is needed)
		n4 := c.IntRange(1, 3)
		tasks = append(tasks, c.Actor("state-driver", func() { w.stateDriver(n4) }))
	}
	if c.S.PlanP(500) {
		// an observer calls WaitExited while the drivers work: it reads (and may
		// lazily clear) the container's context between their calls
		n3 := c.IntRange(1, 3)
		w.hasObserver = true
		tasks = append(tasks, c.Actor("observer", func() { w.observer(n3) }))
	}
	for round := 0; round < 400; round++ {
		c.S.Quiesce()
		if c.Failed() {
			return
		}
		w.checkQuiescentConcurrent()
		if c.Failed() {
			return
		}
		alldone := true
		for _, t := range tasks {
			if !t.Done() {
				alldone = false
			}
		}
		if len(w.gates) > 0 {
			i := c.S.Plan(len(w.gates))
			g := w.gates[i]
			w.gates = append(w.gates[:i], w.gates[i+1:]...)
			close(g)
			continue
		}
		if c.S.PendingTimers() > 0 && (!alldone || c.S.PlanP(700)) {
			// let simulated time pass: fires the earliest retry timer
			at, _ := c.S.NextTimerAt()
			c.S.Count("fault:time-jump")
			c.S.Advance(at - c.S.Now())
			continue
		}
		if alldone {
			break
		}
		c.Stuck("no event to inject but drivers are not done: %s", c.S.StalledString())
		return
	}
	// final drain: clear the context; afterwards no instance may be live and every instance returns
	w.cause(2, func() { w.clearContext() })
	w.ctxTag = 0
	for i := 0; i < 80; i++ {
		c.S.Quiesce()
		if len(w.gates) == 0 && c.S.PendingTimers() == 0 {
			break
		}
		for _, g := range w.gates {
			close(g)
		}
		w.gates = nil
		// let simulated time pass: instances that take simulated time to exit, stale timers
		if at, ok := c.S.NextTimerAt(); ok {
			c.S.Advance(at - c.S.Now())
		}
	}
	if c.Failed() {
		return
	}
	w.checkQuiescentConcurrent()
	for _, in := range w.insts {
		if in.returned == 0 {
			if in.ctx.Err() == nil {
				c.Fail("C05.S2.leaked-instance", "after the final ClearContext instance %d is still running with a live context", in.n)
			}
			return
		}
	}
}

func init() {
	core.Register(&core.Scenario{
		Name:  "routine",
		Props: []string{"C04", "C05", "C14"},
		Run:   runConcurrent,
		NonTrivial: func(n map[string]int) bool {
			return n["probe:instance-cancelled"]+n["probe:instance-deaf"] > 0 && (n["probe:reset-true"]+n["probe:restart-true"] > 0)
		},
		Rule: "non-trivial: at least one instance was cancelled while running (or was deaf to cancellation) and at least one call reported a supersession (reset/restart true)",
	})
	core.Register(&core.Scenario{
		Name:  "routine14",
		Props: []string{"C14"},
		Run:   runSingle,
		NonTrivial: func(n map[string]int) bool {
			return n["probe:current-exit"] > 0 && n["probe:c14-ops"] >= 3
		},
		Rule: "non-trivial: at least three driver calls and at least one exit of a current (not superseded) instance",
	})
}

var errCh14 = errors.New("errch-error")
