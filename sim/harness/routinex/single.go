package routinex

import (
	"context"
	"time"

	"verifsim/harness/core"
	"verifsim/simrt"
)

type waiter14 struct {
	id        int
	task      *simrt.Task
	inCall    bool
	inv       int
	rinr      bool
	cancel    context.CancelFunc
	cancelReq int
	errCh     chan error
	errSent   bool
	errClosed bool
	notRun    bool // at some step of the call the container had no context or no routine
}

type single struct {
	*world
	ws       []*waiter14
	retryDue *inst
	staleAt  map[*inst]int
	checked  map[*inst]bool
}

func (s *single) notRunningNow() bool {
	if s.ctxTag == 0 || !s.hasFn {
		return true
	}
	return s.state && s.curState == 0
}

func (s *single) interval() int64 {
	if s.bo != nil {
		return int64(s.bo.last)
	}
	if s.cfgKind != 0 && s.cfgLast != 0 {
		return s.cfgLast
	}
	return int64(150 * time.Millisecond)
}

// markStale: the exits recorded so far no longer describe the current instance.
func (s *single) markStale(onlyFailed bool) {
	now := s.c.Tick()
	for _, in := range s.exits {
		if s.staleAt[in] == 0 && (!onlyFailed || in.err != nil) {
			s.staleAt[in] = now
		}
	}
}

func (s *single) afterOp() {
	for _, x := range s.ws {
		if x.inCall && s.notRunningNow() {
			x.notRun = true
		}
	}
}

func (s *single) startWaiter() {
	c := s.c
	x := &waiter14{id: len(s.ws), rinr: c.S.PlanP(400)}
	s.ws = append(s.ws, x)
	ctx, cancel := context.WithCancel(context.Background())
	x.cancel = cancel
	var errCh <-chan error
	if c.S.PlanP(400) {
		x.errCh = make(chan error, 1)
		errCh = x.errCh
	}
	c.Descf("waiter %d: WaitExited(returnIfNotRunning=%v)", x.id, x.rinr)
	x.task = c.Actor("waitexited", func() {
		defer cancel()
		x.inv = c.Tick()
		x.notRun = s.notRunningNow()
		x.inCall = true
		err := s.waitExited(ctx, x.rinr, errCh)
		ret := c.Tick()
		x.inCall = false
		s.checkWaitReturn(x, err, ret)
	})
}

func (s *single) currentAt(in *inst, inv int) bool {
	st := s.staleAt[in]
	return st == 0 || st > inv
}

func (s *single) checkWaitReturn(x *waiter14, err error, ret int) {
	c := s.c
	switch {
	case err == nil:
		for _, in := range s.exits {
			if in.err == nil && in.returned < ret && s.currentAt(in, x.inv) {
				return
			}
		}
		if x.rinr && (x.notRun || s.notRunningNow()) {
			return
		}
		c.Fail("C14.M4.nil-without-success", "WaitExited(returnIfNotRunning=%v) returned nil although no current instance had succeeded and the container had a context and a routine during the whole call", x.rinr)
	case err == context.Canceled && (x.cancelReq != 0 || x.errClosed):
	case err == errCh14 && x.errSent:
	default:
		// (several exits may carry the same error value, e.g. the context.Canceled sentinel)
		var cands []*inst
		for _, in := range s.exits {
			if in.err == err {
				cands = append(cands, in)
			}
		}
		if len(cands) == 0 {
			c.Fail("C14.M4.error-from-nowhere", "WaitExited returned %v, which is not the error of any exit of a current instance", err)
			return
		}
		early := true
		for _, in := range cands {
			if in.returned <= ret {
				early = false
				if s.currentAt(in, x.inv) {
					return
				}
			}
		}
		if early {
			c.Fail("C14.M4.error-before-exit", "WaitExited returned the error of instance %d before that instance returned", cands[0].n)
			return
		}
		c.Fail("C14.M4.superseded-error", "WaitExited returned the error of instance %d, which had been superseded before WaitExited was called", cands[len(cands)-1].n)
	}
}

func (s *single) settle() {
	c := s.c
	c.S.Quiesce()
	if c.Failed() {
		return
	}
	if s.needReset {
		c.Fail("C14.M3.backoff-not-reset", "the current instance returned nil with retry configured, but the backoff has not been reset by the time the container is quiet")
		return
	}
	s.afterOp()
	// a retried or restarted routine makes earlier failed exits stale: detect new entries
	for _, in := range s.exits {
		if s.staleAt[in] != 0 {
			continue
		}
		for _, o := range s.insts {
			if o.rid == in.rid && o.entered > in.returned {
				s.staleAt[in] = o.entered
				break
			}
		}
	}
	// M5: every exit of a current instance is reported once to each exit callback
	nilLive, nilOther := 0, 0
	for _, in := range s.insts {
		if in.returned == 0 {
			continue
		}
		if in.err == nil {
			if in.liveExit {
				nilLive++
			} else {
				nilOther++
			}
			continue
		}
		if !in.liveExit || s.checked[in] || in.err == context.Canceled {
			continue // (the sentinel is not unique to one exit: no per-exit count)
		}
		s.checked[in] = true
		c.S.Count("probe:current-exit")
		calls := s.cbCalls[in.err]
		seen := make([]int, s.ncb)
		for _, idx := range calls {
			seen[idx]++
		}
		for i, n := range seen {
			if n != 1 {
				c.Fail("C14.M5.exit-callback", "the exit of current instance %d (error %v) was reported %d times to exit callback %d", in.n, in.err, n, i)
				return
			}
		}
	}
	if nilLive > 0 {
		c.S.Count("probe:current-exit")
	}
	for i := 0; i < s.ncb; i++ {
		n := 0
		for _, idx := range s.nilCbCalls {
			if idx == i {
				n++
			}
		}
		if n < nilLive || n > nilLive+nilOther {
			c.Fail("C14.M5.exit-callback-nil", "exit callback %d saw %d nil exits; %d current instances succeeded (and %d superseded instances returned nil)", i, n, nilLive, nilOther)
			return
		}
	}
	// every failed exit re-checked once more when later callbacks could have duplicated it
	for err, calls := range s.cbCalls {
		if in := s.byErr[err]; in != nil && err != context.Canceled && len(calls) > s.ncb {
			c.Fail("C14.M5.exit-callback", "the exit of instance %d was reported %d times to %d callbacks", in.n, len(calls), s.ncb)
			return
		}
	}
	// M3 liveness: a pending retry whose time has come has happened
	if in := s.retryDue; in != nil && c.S.Now() >= in.exitAt+s.interval() {
		found := false
		for _, o := range s.insts {
			if o.rid == in.rid && o.entered > in.returned {
				found = true
			}
		}
		if !found {
			c.Fail("C14.M3.retry-lost", "instance %d failed at t=%dms with retry configured; at t=%dms, past its backoff of %dms and with no intervening context/routine/restart call, no new instance has entered", in.n, in.exitAt/1e6, c.S.Now()/1e6, s.interval()/1e6)
			return
		}
		s.retryDue = nil
	}
	// M4 quiescence: WaitExited is not blocked while the current instance has exited
	curExited := false
	if s.ctxTag != 0 && s.hasFn && !(s.state && s.curState == 0) {
		for _, in := range s.exits {
			if s.staleAt[in] == 0 {
				curExited = true
			}
		}
	}
	for _, x := range s.ws {
		if !x.inCall || !x.task.Blocked() {
			continue
		}
		switch {
		case x.cancelReq != 0:
			c.Fail("C14.M4.cancelled-waiter-blocked", "WaitExited blocked at a quiescent point although its context was cancelled")
		case x.errSent || x.errClosed:
			c.Fail("C14.M4.errch-waiter-blocked", "WaitExited blocked at a quiescent point although its error channel fired")
		case curExited:
			c.Fail("C14.M4.blocked-after-exit", "WaitExited blocked at a quiescent point although the current instance has exited")
		case x.rinr && s.notRunningNow():
			c.Fail("C14.M4.blocked-not-running", "WaitExited(returnIfNotRunning=true) blocked at a quiescent point although the container has no context or no routine")
		}
		if c.Failed() {
			return
		}
	}
}

func runSingle(c *core.Ctx) {
	s := &single{world: newWorld(c, true), staleAt: map[*inst]int{}, checked: map[*inst]bool{}}
	c.PanicOracle = "C14.P.panic"
	c.S.OnStep = nil
	nops := c.IntRange(3, 8)
	if c.Thorough {
		nops = c.IntRange(3, 14)
	}
	var myRid int
	for i := 0; i < nops && !c.Failed(); i++ {
		c.S.Count("probe:c14-ops")
		prevFail := s.lastFail
		k := c.S.Plan(16)
		// most runs start with a context, a routine and (state variant) a state
		if c.S.PlanP(800) {
			switch {
			case i == 0:
				k = 7
			case i == 1:
				k = 0
			case i == 2 && s.state:
				k = 3
			}
		}
		switch {
		case k < 3: // new routine (or nil)
			rid, r, sr := s.newRoutine()
			if i > 1 && c.S.PlanP(120) {
				r, sr = nil, nil
			}
			myRid = rid
			c.Descf("op: set routine %d (nil=%v)", rid, r == nil)
			s.lastSucc, s.lastFail, s.retryDue = nil, nil, nil
			s.markStale(false)
			s.afterOp()
			s.hasFn = r != nil
			s.afterOp()
			if s.state {
				s.sc.SetStateRoutine(sr)
			} else {
				s.rc.SetRoutine(r)
			}
		case k < 5 && s.state:
			st := c.S.Plan(3)
			if i == 2 && st == 0 {
				st = 1
			}
			c.Descf("op: SetState(%d)", st)
			before := s.curState
			predicted := s.cmpNil || st != before
			if predicted {
				s.lastSucc, s.lastFail, s.retryDue = nil, nil, nil
				s.markStale(false)
			}
			s.afterOp()
			s.curState = st
			s.afterOp()
			_, changed, _, _ := s.sc.SetState(st)
			s.curState = s.sc.GetState()
			if changed != predicted {
				// (return values are not part of the listed properties)
				c.S.Count("probe:setstate-changed-unexpected")
			}
		case k < 7:
			c.Descf("op: RestartRoutine")
			s.lastSucc, s.lastFail, s.retryDue = nil, nil, nil
			predicted := s.ctxTag != 0 && s.hasFn && !(s.state && s.curState == 0)
			if predicted {
				s.markStale(false)
			}
			if got := s.restart(); got != predicted {
				c.S.Count("probe:restart-result-unexpected")
			}
		case k < 10:
			tag := s.mkCtx()
			restart := c.S.PlanP(400)
			c.Descf("op: SetContext(ctx%d, restart=%v)", tag, restart)
			s.retryDue = nil
			if restart {
				s.lastFail = nil
				s.markStale(true)
			}
			s.ctxTag = tag
			s.setContext(s.ctxs[tag], restart)
		case k < 11:
			if s.ctxTag != 0 {
				c.Descf("op: SetContext(same ctx%d, restart=true)", s.ctxTag)
				s.retryDue = nil
				s.lastFail = nil
				s.markStale(true)
				var running *inst
				c.Sub() // instance contexts are handed over by the instances' tasks
				for _, in := range s.insts {
					if in.returned == 0 && in.ctx.Err() == nil {
						running = in
					}
				}
				s.setContext(s.ctxs[s.ctxTag], true)
				// restart=true restarts errored routines, and nothing else: a healthy running instance stays
				c.Sub()
				if running != nil && running.returned == 0 && running.ctx.Err() != nil {
					c.Fail("C14.M6.running-instance-restarted", "SetContext(same context, restart=true) cancelled instance %d, which was running (not exited, not errored)", running.n)
				}
			}
		case k < 12:
			c.Descf("op: ClearContext")
			s.retryDue = nil
			s.ctxTag = 0
			s.afterOp()
			s.clearContext()
		case k < 14:
			d := []int64{50, 100, 150, 250, 500}[c.S.Plan(5)] * 1e6
			if at, ok := c.S.NextTimerAt(); ok && c.S.PlanP(400) {
				d = at - c.S.Now() // exactly at the deadline
			}
			c.Descf("op: advance time by %dms", d/1e6)
			c.S.Count("fault:time-jump")
			c.S.Advance(d)
		case k < 15:
			if len(s.gates) > 0 {
				j := c.S.Plan(len(s.gates))
				g := s.gates[j]
				s.gates = append(s.gates[:j], s.gates[j+1:]...)
				c.Descf("op: open an instance gate")
				close(g)
			}
		default:
			if len(s.ws) < 3 {
				s.startWaiter()
			}
		}
		s.settle()
		// a failed exit of the current instance arms the retry obligation
		if s.lastFail != nil && s.lastFail != prevFail && s.retry && s.ctxTag != 0 && s.lastFail.rid == myRid && !(s.bo != nil && s.bo.stopped) {
			s.retryDue = s.lastFail
		}
	}
	if c.Failed() {
		return
	}
	// drain: let a pending retry obligation come due, then shut down
	if s.retryDue != nil {
		c.S.Advance(s.interval() + 1e6)
		s.settle()
		if c.Failed() {
			return
		}
	}
	s.retryDue = nil
	s.ctxTag = 0
	s.afterOp()
	s.clearContext()
	for _, g := range s.gates {
		close(g)
	}
	s.gates = nil
	s.settle()
	for _, x := range s.ws {
		if x.inCall && x.task.Blocked() {
			if x.errCh != nil && c.S.FaultP(500) {
				if c.S.Fault(2) == 0 {
					x.errSent = true
					c.S.Count("fault:errch-error")
					x.errCh <- errCh14
				} else {
					x.errClosed = true
					c.S.Count("fault:errch-close")
					close(x.errCh)
				}
			} else {
				x.cancelReq = c.Tick()
				c.S.Count("fault:cancel-blocked")
				x.cancel()
			}
		}
	}
	s.settle()
}
