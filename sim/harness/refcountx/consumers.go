package refcountx

import (
	"context"
	"fmt"

	"github.com/aperturerobotics/util/refcount"

	"verifsim/harness/core"
	"verifsim/simrt"
)

func (w *world) armCancel(x *consumer, cancel context.CancelFunc) {
	c := w.c
	x.cancel = cancel
	switch c.S.Fault(10) {
	case 1:
		x.cancelReq = c.Tick()
		c.S.Count("fault:cancel-before")
		cancel()
	case 2, 3:
		k := c.S.Fault(20)
		c.S.GoNamed("canceller", func() {
			core.YieldN("refcountx.canceller", k)
			if x.inCall && x.cancelReq == 0 {
				x.cancelReq = c.Tick()
				c.S.Count("fault:cancel-async")
				cancel()
			}
		})
	}
}

// checkConsumerError: an error returned by a consumer call is the caller's own
// cancellation or an error the resolver returned before.
func (w *world) checkConsumerError(x *consumer, what string, err error, ret int) {
	c := w.c
	if err == context.Canceled && x.cancelReq != 0 {
		return
	}
	if rc := w.byErr[err]; rc != nil && rc.returned != 0 && rc.returned <= ret {
		return
	}
	// a resolver that honoured cancellation returns its context's error
	for _, rc := range w.calls {
		if rc.err != nil && rc.err == err && rc.returned != 0 && rc.returned <= ret {
			return
		}
	}
	c.Fail("C10.W3.error-from-nowhere", "%s (consumer %d, own context cancelled=%v) returned error %v, which is neither its own cancellation nor an error the resolver returned", what, x.id, x.cancelReq != 0, err)
}

func (w *world) holdAndRelease(x *consumer, h *holder, rel func()) {
	c := w.c
	if c.S.PlanP(450) {
		g := make(chan struct{})
		w.gates = append(w.gates, g)
		simrt.Recv1("refcountx.consumer-hold", g)
	} else {
		core.YieldN("refcountx.consumer-hold", c.S.Plan(4))
	}
	if h.relCalled == 0 {
		h.relCalled = c.Tick()
	}
	rel()
	if c.S.FaultP(250) {
		c.S.Count("fault:double-release")
		rel()
	}
}

func (w *world) runConsumer(x *consumer) {
	c := w.c
	w.maybeGate()
	ctx, cancel := context.WithCancel(context.Background())
	defer cancel()
	w.armCancel(x, cancel)
	switch x.kind {
	case 0, 1, 2:
		names := []string{"Wait", "Resolve", "ResolveWithReleased"}
		c.Descf("consumer %d: %s", x.id, names[x.kind])
		var v *val
		var rel func()
		var err error
		h := &holder{id: 1000 + x.id, consumer: true}
		x.inCall = true
		switch x.kind {
		case 0:
			var ref interface{ Release() }
			var r2 = func() {}
			vv, rf, e := w.rc.Wait(ctx)
			v, err = vv, e
			if rf != nil {
				ref = rf
				r2 = ref.Release
			}
			rel = r2
		case 1:
			v, rel, err = w.rc.Resolve(ctx)
		default:
			if c.S.FaultP(200) {
				// the released callback is optional
				c.S.Count("fault:nil-arg")
				x.nilCb = true
				h.autoRelease = true
				v, rel, err = w.rc.ResolveWithReleased(ctx, nil)
				break
			}
			v, rel, err = w.rc.ResolveWithReleased(ctx, func() {
				x.relCb++
				if h.relCalled == 0 {
					h.relCalled = c.Tick() // the library has released the reference itself
				}
			})
		}
		ret := c.Tick()
		if err != nil {
			x.inCall = false
			if rel != nil && x.kind != 0 {
				c.Fail("C10.W3.release-func-with-error", "%s returned an error together with a release function", names[x.kind])
				return
			}
			w.checkConsumerError(x, names[x.kind], err, ret)
			return
		}
		rc := w.rcOfVal(v)
		if rc == nil {
			x.inCall = false
			c.Fail("C10.W1.unknown-value", "%s returned a value the resolver never returned (nil=%v)", names[x.kind], v == nil)
			return
		}
		// if the resolver handed out this pointer more than once, which call the
		// consumer was given is not observable: the value-specific checks are skipped
		shared := 0
		for _, o := range w.calls {
			if o.v == v {
				shared++
			}
		}
		// register the held reference before leaving the call (same atomic stretch as the return)
		if shared == 1 {
			h.given = []*rcall{rc}
		}
		h.addRet = ret
		w.holders = append(w.holders, h)
		x.inCall = false
		if shared == 1 && rc.rel > 0 && !w.invalidated(rc, ret) {
			c.Fail("C10.W1.returned-released-value", "%s returned value %d, which had already been released although it was never invalidated", names[x.kind], rc.n)
			return
		}
		c.S.Count("probe:consumer-got-value")
		if x.kind == 2 && shared == 1 && rc.rel > 0 {
			x.mustFire = true
		}
		w.holdAndRelease(x, h, rel)
		if x.kind == 2 && shared == 1 && rc.rel > 0 && rc.relAt < h.relCalled {
			x.mustFire = true
		}
	case 5:
		// WaitRefCountContainer: waits on the target containers (takes no reference itself)
		c.Descf("consumer %d: WaitRefCountContainer", x.id)
		inv := c.Tick()
		x.inCall = true
		v, err := refcount.WaitRefCountContainer(ctx, w.target, w.targetErr)
		ret := c.Tick()
		x.inCall = false
		if err != nil {
			w.checkConsumerError(x, "WaitRefCountContainer", err, ret)
		} else if v == nil {
			c.Fail("C10.W5.container-wait-nil", "WaitRefCountContainer returned (nil, nil)")
		} else {
			ok := false
			for _, rc := range w.calls {
				if rc.v == v && rc.returned != 0 && rc.returned < ret && (rc.rel == 0 || rc.relAt > inv) {
					ok = true
				}
			}
			if !ok {
				c.Fail("C10.W5.container-wait-stale-value", "WaitRefCountContainer returned a value that was not the current value at any moment of the call")
			}
		}
	case 4:
		// AddRefPromise (the mechanism behind Wait/Resolve), awaited later: an await
		// that begins after the value was dropped must wait for the replacement
		c.Descf("consumer %d: AddRefPromise, await later", x.id)
		h := &holder{id: 1000 + x.id, consumer: true}
		prom, ref := w.rc.AddRefPromise()
		h.addRet = c.Tick()
		w.holders = append(w.holders, h)
		if c.S.PlanP(500) {
			g := make(chan struct{})
			w.gates = append(w.gates, g)
			simrt.Recv1("refcountx.consumer-hold", g)
		} else {
			core.YieldN("refcountx.consumer-hold", c.S.Plan(6))
		}
		awaitInv := c.Tick()
		x.inCall = true
		v, err := prom.Await(ctx)
		ret := c.Tick()
		x.inCall = false
		if err != nil {
			w.checkConsumerError(x, "AddRefPromise.Await", err, ret)
		} else if rc := w.rcOfVal(v); rc == nil {
			c.Fail("C10.W1.unknown-value", "the promise of AddRefPromise returned a value the resolver never returned")
		} else {
			shared := 0
			for _, o := range w.calls {
				if o.v == v {
					shared++
				}
			}
			if shared == 1 && rc.rel > 0 && rc.relAt < awaitInv {
				c.Fail("C10.W4.await-returned-dropped-value", "an await on the promise of AddRefPromise that began after value %d had been dropped (its release function ran) returned that value instead of waiting for the replacement", rc.n)
			}
			c.S.Count("probe:consumer-got-value")
		}
		h.relCalled = c.Tick()
		ref.Release()
	default:
		w.runAccess(x, ctx)
	}
}

func (w *world) runAccess(x *consumer, ctx context.Context) {
	c := w.c
	c.Descf("consumer %d: Access", x.id)
	var lastN int
	x.inCall = true
	err := w.rc.Access(ctx, func(cbCtx context.Context, v *val) error {
		rc := w.rcOfVal(v)
		now := c.Tick()
		// the resolver may have handed out this pointer more than once (equal
		// replacement): if every such result has been released, which of them the
		// callback was given is not observable; take the one that explains it best
		shared := false
		if rc != nil && rc.rel > 0 {
			for _, o := range w.calls {
				if o != rc && o.v == v && o.returned != 0 && (v != nil || o.zero) {
					shared = true
					if o.rel > 0 && w.invalidated(o, now) && !w.invalidated(rc, now) {
						rc = o
					}
				}
			}
		}
		inv := &accessInv{n: len(x.invs) + 1, rc: rc, ctx: cbCtx, start: now, shared: shared}
		x.invs = append(x.invs, inv)
		x.cbRunning = inv
		defer func() {
			x.cbRunning = nil
			inv.end = c.Tick()
		}()
		if rc == nil {
			c.Fail("C10.A1.unknown-value", "Access invoked its callback with a value the resolver never returned (%v)", v)
			return nil
		}
		if rc.n < lastN {
			c.Fail("C10.A1.generation-order", "Access invoked its callback with value %d after value %d", rc.n, lastN)
		}
		if len(x.invs) > 1 {
			c.S.Count("probe:access-reinvoked")
		}
		lastN = rc.n
		if rc.rel > 0 && cbCtx.Err() == nil && !w.invalidated(rc, inv.start) {
			c.Fail("C10.A1.released-value", "Access invoked its callback with value %d, which has been released without having been invalidated", rc.n)
		}
		beh := c.S.Plan(4)
		if beh == 1 && c.S.PlanP(300) {
			// the callback's own, ordinary result happens to be the context.Canceled sentinel
			c.S.Count("probe:access-cb-returns-canceled-sentinel")
			core.YieldN("refcountx.access-cb", c.S.Plan(3))
			inv.err = context.Canceled
			return inv.err
		}
		switch beh {
		case 0:
			core.YieldN("refcountx.access-cb", c.S.Plan(4))
			return nil
		case 1:
			core.YieldN("refcountx.access-cb", c.S.Plan(4))
			inv.err = fmt.Errorf("access-error-%d-%d", x.id, inv.n)
			return inv.err
		default: // runs until its context is cancelled or the driver's gate opens
			g := make(chan struct{})
			w.gates = append(w.gates, g)
			if simrt.Select("refcountx.access-cb-wait", simrt.Recv(cbCtx.Done()), simrt.Recv(g)) == 0 {
				c.S.Count("probe:access-cb-cancelled")
				// the callback's context is cancelled when its value is invalidated or the
				// caller's context is cancelled - not otherwise
				// (skipped when the resolver handed this pointer out more than once: then
				// it cannot be told which result the callback was given)
				nsame := 0
				for _, o := range w.calls {
					if o.v == v && (v != nil || o.zero) {
						nsame++
					}
				}
				if x.cancelReq == 0 && rc != nil && nsame == 1 && rc.rel == 0 && !w.invalidated(rc, c.Tick()) {
					c.Fail("C10.A2.callback-cancelled-without-cause", "the context of an Access callback running on value %d was cancelled although the value has not been invalidated or released and the caller's context is live", rc.n)
				}
				if beh == 2 {
					inv.err = cbCtx.Err()
					return inv.err
				}
			}
			return nil
		}
	})
	ret := c.Tick()
	x.inCall = false
	// A3: which invocation's result is this?
	if err == context.Canceled && x.cancelReq != 0 {
		return
	}
	if len(x.invs) > 0 {
		last := x.invs[len(x.invs)-1]
		// the same error value may also be the resolver's current (error) result, e.g.
		// context.Canceled returned by a resolver whose root context was cancelled:
		// then it cannot be told whose result Access returned
		ambiguous := false
		for _, rc := range w.calls {
			if err != nil && rc.err == err && rc.returned != 0 && rc.returned <= ret {
				ambiguous = true
			}
		}
		// a caller context that was cancelled before the callback returned wins over the callback's own result
		if err != context.Canceled && x.cancelReq != 0 && x.cancelReq < last.end && err == last.err && !ambiguous {
			c.Fail("C10.A3.cancellation-not-returned", "the caller's context was cancelled while invocation %d of the Access callback was running, but Access returned that invocation's result (%v) instead of context.Canceled", last.n, err)
			return
		}
		if err == last.err && !ambiguous {
			// the callback's own result: its value must not have been dropped before the callback returned
			if last.rc != nil && !last.shared && last.rc.rel > 0 && last.rc.relAt < last.end {
				c.Fail("C10.A3.result-of-invalidated-invocation", "Access returned the result of invocation %d although its value %d had been dropped (release function ran) before that invocation returned", last.n, last.rc.n)
			}
			return
		}
	}
	if err != nil {
		w.checkConsumerError(x, "Access", err, ret)
		return
	}
	if len(x.invs) == 0 {
		c.Fail("C10.A3.nil-without-invocation", "Access returned nil without ever invoking its callback")
	}
}

func (w *world) checkConsumersQuiescent() {
	c := w.c
	for _, x := range w.consumers {
		if !x.inCall || !x.task.Blocked() {
			continue
		}
		if x.kind == 5 && x.cancelReq == 0 {
			if w.target.GetValue() != nil {
				c.Fail("C10.W5.container-wait-blocked", "WaitRefCountContainer is blocked at a quiescent point although the target container holds a value")
				return
			}
			if w.targetErr != nil {
				if pe := w.targetErr.GetValue(); pe != nil && *pe != nil {
					c.Fail("C10.W5.container-wait-blocked", "WaitRefCountContainer is blocked at a quiescent point although the error container holds an error")
					return
				}
			}
		}
		if x.kind != 3 {
			if x.cancelReq != 0 {
				c.Fail("C10.Q.cancelled-consumer-blocked", "consumer %d (kind %d) is blocked at a quiescent point although its context was cancelled", x.id, x.kind)
				return
			}
			// Wait / Resolve / ResolveWithReleased: not blocked while the RefCount (which has a
			// context, and the consumer's own reference) holds a current result, value or error
			if x.kind <= 2 && w.active == 0 && w.ctxTag != 0 && len(w.calls) > 0 {
				last := w.calls[len(w.calls)-1]
				if last.returned != 0 && !w.invalidated(last, c.Tick()) && (last.err != nil || (last.hasRel && last.rel == 0)) {
					c.Fail("C10.W6.wait-blocked-with-result", "consumer %d (kind %d) is blocked at a quiescent point although the latest resolver call %d has returned its result (err=%v), which is current", x.id, x.kind, last.n, last.err)
					return
				}
			}
			continue
		}
		// Access
		if inv := x.cbRunning; inv != nil {
			if inv.rc != nil && inv.rc.rel > 0 && inv.ctx.Err() == nil {
				c.Fail("C10.A2.callback-not-cancelled", "an Access callback is still running on value %d, whose release function has already run, with a live context", inv.rc.n)
				return
			}
			if x.cancelReq != 0 && inv.ctx.Err() == nil {
				c.Fail("C10.A2.callback-not-cancelled", "an Access callback is still running with a live context although the caller's context was cancelled")
				return
			}
			continue
		}
		if x.cancelReq != 0 {
			c.Fail("C10.Q.cancelled-consumer-blocked", "Access is blocked at a quiescent point, with no callback running, although its context was cancelled")
			return
		}
		// no callback running: the RefCount must not hold a resolved value
		for _, rc := range w.calls {
			if rc.returned != 0 && rc.hasRel && rc.rel == 0 && rc.err == nil && w.active == 0 {
				c.Fail("C10.A2.not-reinvoked", "Access has not returned and is not running its callback at a quiescent point although the RefCount holds the resolved value %d", rc.n)
				return
			}
			if rc.returned != 0 && rc.hasRel && rc.rel == 0 && rc.err != nil && w.active == 0 {
				c.Fail("C10.A2.error-not-returned", "Access is blocked at a quiescent point although the current result is the resolver error of call %d", rc.n)
				return
			}
		}
	}
}
