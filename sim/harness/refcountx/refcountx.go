// Package refcountx: scenario "refcount" — refcount.RefCount under seeded
// schedules: reference holders (recording or nil callbacks, double Release),
// a context changer, an invalidator calling stored released() functions at
// arbitrary moments, consumers (Wait, Resolve, ResolveWithReleased, Access)
// and resolver calls with scripted outcomes (value, error, late return after
// being superseded, deaf to cancellation). Oracles for C08, C09 and C10.
package refcountx

import (
	"context"
	"fmt"
	"strings"

	"github.com/aperturerobotics/util/ccontainer"
	"github.com/aperturerobotics/util/refcount"
	"verifsim/harness/core"
	"verifsim/simrt"
)

type val struct{ id int }

// rcall is one call of the resolver.
type rcall struct {
	// zero: the call returned the zero value (nil pointer) with a nil error and a release function
	zero     bool
	n        int
	ctx      context.Context
	released func()
	entered  int
	returned int
	v        *val
	err      error
	hasRel   bool
	rel      int // number of times the release func ran
	relAt    int
	relInvAt int // stamp of the first invocation of released() for this call (0 = never)
}

type told struct {
	resolved bool
	v        *val
	err      error
	at       int
	rc       *rcall // the resolver call whose result this notification carries (nil if none identifiable)
}

// holder is a reference (or a consumer-held reference) that may have been given values.
type holder struct {
	id        int
	ref       *refcount.Ref[*val]
	recording bool
	consumer  bool
	addRet    int
	relCalled int
	told      []told
	given     []*rcall // consumer: the value it was handed
	// autoRelease: the library releases this reference itself on invalidation without any notification (nil released callback)
	autoRelease bool
}

func (h *holder) last() *told {
	if len(h.told) == 0 {
		return nil
	}
	return &h.told[len(h.told)-1]
}

type actorCall struct {
	task   *simrt.Task
	what   string
	inCall bool
}

type consumer struct {
	id        int
	task      *simrt.Task
	kind      int // 0 Wait 1 Resolve 2 ResolveWithReleased 3 Access 4 AddRefPromise+later Await 5 WaitRefCountContainer
	inCall    bool
	cancel    context.CancelFunc
	cancelReq int
	relCb     int // ResolveWithReleased: released callback count
	nilCb     bool
	mustFire  bool
	// Access
	cbRunning *accessInv
	invs      []*accessInv
}

type accessInv struct {
	n      int
	rc     *rcall
	ctx    context.Context
	start  int
	shared bool // the value pointer was handed out by more than one (released) resolver call
	end    int
	err    error
}

type world struct {
	rootCancel   context.CancelFunc // cancels the context most recently given to SetContext (nil: none or already used)
	c            *core.Ctx
	rc           *refcount.RefCount[*val]
	keep         bool
	target       *ccontainer.CContainer[*val]
	targetErr    *ccontainer.CContainer[*error]
	calls        []*rcall
	active       int
	holders      []*holder
	gates        []chan struct{}
	apiCalls     []*actorCall
	consumers    []*consumer
	ctxTag       int
	ctxChangeInv []int    // stamps at which a context change was invoked
	ctxChangeRet []int    // stamps at which it returned (0 while in flight)
	stored       []*rcall // calls whose released() the invalidator may invoke
	p5           []*rcall
	// refsUncertain: the number of references the library holds can no longer be derived from the
	// harness bookkeeping (see liveHolders); reference-count based oracles are skipped for this run
	refsUncertain bool
	// zeroOK: in this run the resolver may return the zero value as a result
	zeroOK bool
	byErr  map[error]*rcall
}

// rcOfVal identifies the resolver call a value belongs to. A resolver may
// return the same pointer again (an "equal replacement"), but only after the
// earlier call's result was released, so at most one unreleased call owns a
// pointer: that one is meant; otherwise the most recent call that returned it.
func (w *world) rcOfVal(v *val) *rcall {
	var last *rcall
	for _, rc := range w.calls {
		if v == nil && !rc.zero {
			continue
		}
		if rc.v == v && rc.returned != 0 {
			if rc.rel == 0 {
				return rc
			}
			last = rc
		}
	}
	return last
}

func (w *world) rcOfTold(resolved bool, v *val, err error) *rcall {
	if !resolved {
		return nil
	}
	if v != nil {
		return w.rcOfVal(v)
	}
	if err != nil {
		return w.byErr[err]
	}
	return w.rcOfVal(nil) // a zero-value result
}

func (w *world) invalidated(rc *rcall, before int) bool {
	if rc.relInvAt != 0 && rc.relInvAt <= before {
		return true
	}
	// a context change invalidates every result of a resolver call that had
	// started before the change took effect (returned)
	for i, st := range w.ctxChangeInv {
		if st <= before && (w.ctxChangeRet[i] == 0 || w.ctxChangeRet[i] > rc.entered) {
			return true
		}
	}
	return false
}

// the release function of a resolved value
func (w *world) mkRelease(rc *rcall) func() {
	c := w.c
	return func() {
		now := c.Tick()
		rc.rel++
		if rc.rel > 1 {
			c.Fail("C08.E1.released-twice", "the release function of resolver call %d ran %d times", rc.n, rc.rel)
			return
		}
		rc.relAt = now
		// E2: at this moment the target container no longer holds the value and every reference has been told it is gone
		if rc.v != nil && w.target != nil && w.target.GetValue() == rc.v {
			c.Fail("C08.E2.target-still-holds-value", "the release function of value %d runs while the target container still holds that value", rc.n)
			return
		}
		for _, h := range w.holders {
			if h.consumer {
				// E3 for consumer-held references (C10.W1)
				if h.relCalled == 0 && len(h.given) > 0 && h.given[0] == rc && !w.invalidated(rc, now) {
					c.Fail("C10.W1.released-while-held", "value %d was released while a reference returned by Wait/Resolve was still held and the value had not been invalidated", rc.n)
					return
				}
				continue
			}
			if !h.recording || h.relCalled != 0 {
				continue
			}
			l := h.last()
			if l != nil && l.resolved && l.rc == rc {
				c.Fail("C08.E2.reference-not-told", "the release function of resolver call %d runs although reference %d, which is still held, was last told that this result is current", rc.n, h.id)
				return
			}
			// E3: a held reference was given this value and nothing invalidated it
			for _, t := range h.told {
				if t.resolved && t.rc == rc {
					if !w.invalidated(rc, now) {
						c.Fail("C08.E3.released-while-referenced", "the result of resolver call %d was released while reference %d, which had been given it, is still held and no invalidation (released(), context change) had been requested", rc.n, h.id)
						return
					}
				}
			}
		}
	}
}

func (w *world) resolver(ctx context.Context, released func()) (*val, func(), error) {
	c := w.c
	rc := &rcall{n: len(w.calls) + 1, ctx: ctx, released: released, entered: c.Tick()}
	w.calls = append(w.calls, rc)
	c.Pub()
	if w.active > 0 {
		c.Fail("C09.P1.two-resolver-calls", "resolver call %d entered while %d earlier call(s) have not returned", rc.n, w.active)
	}
	w.active++
	defer func() {
		w.active--
		rc.returned = c.Tick()
	}()
	beh := c.S.Plan(10)
	k := c.S.Plan(4)
	c.Descf("resolver call %d: behaviour %d", rc.n, beh)
	mkVal := func() (*val, func(), error) {
		rc.v = &val{id: rc.n}
		// equal replacement: hand out the previous value's pointer again (only
		// if that earlier result has been released, so ownership stays unique)
		if rc.n > 1 && c.S.PlanP(250) {
			if prev := w.calls[rc.n-2]; prev.v != nil && prev.returned != 0 && prev.rel > 0 {
				rc.v = prev.v
				c.S.Count("probe:equal-replacement")
			}
		}
		rc.hasRel = true
		return rc.v, w.mkRelease(rc), nil
	}
	if w.zeroOK && beh <= 2 && c.S.PlanP(400) {
		// the zero value is a legitimate result: resolved, nil error, with a release function
		core.YieldN("refcountx.resolver", k)
		c.S.Count("probe:zero-value-result")
		rc.zero = true
		rc.hasRel = true
		w.stored = append(w.stored, rc)
		return nil, w.mkRelease(rc), nil
	}
	switch beh {
	case 0, 1, 2:
		core.YieldN("refcountx.resolver", k)
		if c.S.FaultP(80) {
			// the resolver itself declares its (future) result invalid before returning
			c.S.Count("fault:invalidate-inside-resolver")
			rc.relInvAt = c.Tick()
			released()
			core.YieldN("refcountx.resolver", 1)
		}
		if c.S.PlanP(500) {
			w.stored = append(w.stored, rc)
		}
		return mkVal()
	case 3: // unique error, with or without a release function
		core.YieldN("refcountx.resolver", k)
		rc.err = fmt.Errorf("resolve-error-%d", rc.n)
		if c.S.PlanP(100) && ctx.Err() == nil {
			// an ordinary resolver failure whose error value is the context.Canceled sentinel
			c.S.Count("probe:canceled-sentinel-result")
			rc.err = context.Canceled
		}
		w.byErr[rc.err] = rc
		if c.S.PlanP(150) {
			// a value, a release function and an error all at once: the value is part of the
			// (error) result and is released like any other, not before the references were told
			c.S.Count("probe:value-with-error-result")
			rc.v = &val{id: rc.n}
			rc.hasRel = true
			return rc.v, w.mkRelease(rc), rc.err
		}
		if c.S.PlanP(500) {
			rc.hasRel = true
			return nil, w.mkRelease(rc), rc.err
		}
		return nil, nil, rc.err
	case 4, 5: // runs until cancelled (or gate), then still returns a value: a result after supersession
		g := make(chan struct{})
		w.gates = append(w.gates, g)
		w.stored = append(w.stored, rc) // released() may be called while the call is in progress
		if simrt.Select("refcountx.resolver-wait", simrt.Recv(ctx.Done()), simrt.Recv(g)) == 0 {
			c.S.Count("probe:resolver-returns-after-supersession")
		}
		core.YieldN("refcountx.resolver-late", k)
		return mkVal()
	case 6: // deaf: only the gate ends it
		g := make(chan struct{})
		w.gates = append(w.gates, g)
		simrt.Recv1("refcountx.resolver-deaf", g)
		return mkVal()
	case 7: // honours cancellation with the context's error
		g := make(chan struct{})
		w.gates = append(w.gates, g)
		if simrt.Select("refcountx.resolver-wait", simrt.Recv(ctx.Done()), simrt.Recv(g)) == 0 {
			core.YieldN("refcountx.resolver-late", k)
			rc.err = ctx.Err()
			return nil, nil, rc.err
		}
		return mkVal()
	default:
		w.stored = append(w.stored, rc)
		return mkVal()
	}
}

func (w *world) api(what string, f func()) {
	ac := &actorCall{task: w.c.S.Self(), what: what, inCall: true}
	w.apiCalls = append(w.apiCalls, ac)
	w.c.Guard("C09.P2.panic", what, f)
	ac.inCall = false
}

func (w *world) maybeGate() {
	if w.c.S.PlanP(250) {
		g := make(chan struct{})
		w.gates = append(w.gates, g)
		simrt.Recv1("refcountx.actor-gate", g)
	}
}

func (w *world) refHolder(id, nops int) {
	c := w.c
	for i := 0; i < nops && !c.Failed(); i++ {
		w.maybeGate()
		h := &holder{id: len(w.holders), recording: !c.S.FaultP(200)}
		w.holders = append(w.holders, h)
		var cb func(bool, *val, error)
		if h.recording {
			cb = func(resolved bool, v *val, err error) {
				rc := w.rcOfTold(resolved, v, err)
				h.told = append(h.told, told{resolved, v, err, c.Tick(), rc})
				// C08: a value is never exposed after its release function has run
				if resolved && v != nil && rc != nil && rc.rel > 0 {
					nsame := 0
					for _, o := range w.calls {
						if o.v == v {
							nsame++
						}
					}
					if nsame == 1 {
						c.Fail("C08.E2.released-value-delivered", "a reference callback was told that value %d is the current result although the value's release function had already run", rc.n)
					}
				}
				if resolved && rc != nil && rc.hasRel && rc.released != nil && c.S.FaultP(40) {
					// the reference callback (it runs with the RefCount's lock held)
					// declares the value it was just given invalid
					c.S.Count("fault:invalidate-from-callback")
					w.invalidate(rc, "reference callback")
				}
			}
		} else {
			c.S.Count("fault:nil-arg")
		}
		c.Descf("holder %d: AddRef(recording=%v)", h.id, h.recording)
		w.api("AddRef", func() { h.ref = w.rc.AddRef(cb) })
		if c.Failed() || h.ref == nil {
			return
		}
		h.addRet = c.Tick()
		// hold
		if c.S.PlanP(450) {
			g := make(chan struct{})
			w.gates = append(w.gates, g)
			simrt.Recv1("refcountx.hold", g)
		} else {
			core.YieldN("refcountx.hold", c.S.Plan(4))
		}
		n := 1
		if c.S.FaultP(250) {
			n = 2
			c.S.Count("fault:double-release")
		}
		c.Descf("holder %d: Release x%d", h.id, n)
		h.relCalled = c.Tick()
		for j := 0; j < n; j++ {
			w.api("Ref.Release", func() { h.ref.Release() })
		}
	}
}

func (w *world) ctxStep(i int) {
	c := w.c
	{
		w.maybeGate()
		if w.rootCancel != nil && c.S.FaultP(120) {
			// the context the RefCount was given is cancelled behind its back: the
			// RefCount still has that context; a resolver call in progress is still
			// the current one and whatever it returns is its result
			c.Descf("ctx-changer: root-cancel of the current context")
			c.S.Count("fault:root-cancel")
			w.rootCancel()
			w.rootCancel = nil
			return
		}
		if c.S.PlanP(700) {
			tag := len(w.ctxChangeInv) + 100
			ctx, cancel := core.TaggedContext(context.Background(), tag)
			w.rootCancel = cancel
			c.Descf("ctx-changer: SetContext(ctx%d)", tag)
			w.ctxChangeInv = append(w.ctxChangeInv, c.Tick())
			w.ctxChangeRet = append(w.ctxChangeRet, 0)
			idx := len(w.ctxChangeRet) - 1
			w.ctxTag = tag
			w.api("SetContext", func() {
				// (the return value is documented but not part of any listed property)
				if !w.rc.SetContext(ctx) {
					c.S.Count("probe:setcontext-returned-false")
				}
			})
			w.ctxChangeRet[idx] = c.Tick()
		} else {
			c.Descf("ctx-changer: ClearContext")
			idx := -1
			if w.ctxTag != 0 {
				w.ctxChangeInv = append(w.ctxChangeInv, c.Tick())
				w.ctxChangeRet = append(w.ctxChangeRet, 0)
				idx = len(w.ctxChangeRet) - 1
			}
			w.ctxTag = 0
			w.rootCancel = nil
			w.api("ClearContext", func() { w.rc.ClearContext() })
			if idx >= 0 {
				w.ctxChangeRet[idx] = c.Tick()
			}
		}
	}
}

func (w *world) invalidate(rc *rcall, who string) {
	c := w.c
	c.Sub() // the released function was handed over by the resolver call
	c.Descf("%s: released() of resolver call %d", who, rc.n)
	c.S.Count("fault:invalidate")
	now := c.Tick()
	if rc.relInvAt == 0 {
		rc.relInvAt = now
		if rc.returned != 0 && rc.hasRel && rc.rel == 0 {
			w.p5 = append(w.p5, rc)
		}
	} else {
		c.S.Count("fault:invalidate-twice")
	}
	w.api("released()", rc.released)
}

func (w *world) invalidator(nops int) {
	c := w.c
	for i := 0; i < nops && !c.Failed(); i++ {
		core.YieldN("refcountx.invalidator", c.S.Fault(12))
		if len(w.stored) == 0 {
			continue
		}
		rc := w.stored[c.S.Fault(len(w.stored))]
		w.invalidate(rc, "invalidator")
	}
}

// ---- quiescence oracles ----

func (w *world) liveHolders() (n int, rec []*holder) {
	for _, h := range w.holders {
		if h.consumer {
			if h.relCalled == 0 {
				// ResolveWithReleased with a nil callback: the library drops the
				// reference itself when the value is invalidated and nothing tells us
				if h.autoRelease {
					if len(h.given) == 0 {
						w.refsUncertain = true
						continue
					}
					if h.given[0].rel > 0 {
						continue
					}
				}
				n++
			}
			continue
		}
		if h.addRet != 0 && h.relCalled == 0 {
			n++
			if h.recording {
				rec = append(rec, h)
			}
		}
	}
	return
}

func (w *world) checkQuiescent(final bool) {
	c := w.c
	// P3: the non-blocking calls never block
	for _, ac := range w.apiCalls {
		if ac.inCall && ac.task.Blocked() {
			c.Fail("C09.P3.deadlock", "%s is blocked at a quiescent point (these calls never block by contract): %s", ac.what, c.S.StalledString())
			return
		}
	}
	nrefs, rec := w.liveHolders()
	if w.refsUncertain {
		w.checkConsumersQuiescent()
		return
	}
	// internal references of consumers still inside their calls also count as references
	consumersIn := 0
	for _, x := range w.consumers {
		if x.inCall && x.kind != 5 { // WaitRefCountContainer takes no reference
			consumersIn++
		}
	}
	// E4: unreleased results
	var unreleased []*rcall
	for _, rc := range w.calls {
		if rc.returned != 0 && rc.hasRel && rc.rel == 0 {
			unreleased = append(unreleased, rc)
		}
	}
	if len(unreleased) > 1 {
		c.Fail("C08.E4.leak", "at a quiescent point %d resolver results are unreleased (calls %d and %d): only the current one may be", len(unreleased), unreleased[0].n, unreleased[1].n)
		return
	}
	if len(unreleased) == 1 && nrefs == 0 && consumersIn == 0 {
		rc := unreleased[0]
		if !(w.keep && rc.err == nil && w.ctxTag != 0) {
			c.Fail("C08.E4.not-released-without-references", "at a quiescent point no reference is held (keepUnref=%v, context set=%v) but the result of resolver call %d (err=%v) has not been released", w.keep, w.ctxTag != 0, rc.n, rc.err)
			return
		}
	}
	if final {
		for _, rc := range w.calls {
			if rc.returned != 0 && rc.hasRel && rc.rel != 1 {
				c.Fail("C08.E4.final-release-count", "after the final ClearContext the release function of resolver call %d has run %d times", rc.n, rc.rel)
				return
			}
		}
	}
	// a result whose released() callback was invoked — even before the resolver
	// returned it — is dropped: it is not current at a quiescent point
	for _, rc := range w.calls {
		if rc.relInvAt != 0 && rc.returned != 0 && rc.hasRel && rc.rel == 0 {
			// stated by C08 (released no later than shortly after it is invalidated) and by C09 (released() makes the value be dropped)
			id := "C09.P5.released-ignored"
			if c.Only == "C08" {
				id = "C08.E4.invalidated-not-released"
			}
			c.Fail(id, "released() was called for resolver call %d (before it returned: %v), but at the next quiescent point its result has not been dropped", rc.n, rc.relInvAt < rc.returned)
			return
		}
	}
	// P5: released() of the current value makes it be dropped and resolved afresh
	var keepP5 []*rcall
	for _, rc := range w.p5 {
		if rc.rel == 0 {
			c.Fail("C09.P5.released-ignored", "released() was called for the current result of resolver call %d, but at the next quiescent point that result has not been dropped", rc.n)
			return
		}
		if w.ctxTag != 0 && nrefs > 0 && w.ctxStableSince() < rc.relInvAt && w.heldThroughout(rc.relInvAt) {
			newer := false
			for _, o := range w.calls {
				if o.n > rc.n {
					newer = true
				}
			}
			if !newer {
				c.Fail("C09.P5.not-resolved-afresh", "released() was called for resolver call %d with a context and a reference present, but the resolver was not entered again", rc.n)
				return
			}
		}
	}
	w.p5 = keepP5
	// P4: referenced + context means resolving or resolved and delivered
	if w.ctxTag != 0 && (nrefs > 0 || consumersIn > 0) && w.active == 0 {
		var cur *rcall
		if len(unreleased) == 1 {
			cur = unreleased[0]
		} else {
			// the current result may be an error without a release function: the last returned call
			for _, rc := range w.calls {
				if rc.returned != 0 && !rc.hasRel && rc.err != nil {
					cur = rc
				}
			}
			if cur != nil && cur.n != len(w.calls) {
				cur = nil
			}
		}
		if cur == nil {
			c.Fail("C09.P4.not-resolving", "at a quiescent point the RefCount has a context and %d reference(s), but no resolver call is in progress and no result is current", nrefs+consumersIn)
			return
		}
		c.S.Count("probe:resolved-at-quiescence")
		for _, h := range rec {
			l := h.last()
			if l == nil || !l.resolved || l.v != cur.v || l.err != cur.err {
				c.Fail("C09.P4.reference-not-told-result", "at a quiescent point the current result is that of resolver call %d (err=%v), but reference %d was last told %+v", cur.n, cur.err, h.id, l)
				return
			}
		}
		if w.target != nil && cur.err == nil && w.target.GetValue() != cur.v {
			c.Fail("C09.P4.target-not-updated", "at a quiescent point the current value is that of resolver call %d but the target container holds %v", cur.n, w.target.GetValue())
			return
		}
		if w.targetErr != nil && cur.err != nil {
			if pe := w.targetErr.GetValue(); pe == nil || *pe != cur.err {
				c.Fail("C09.P4.target-error-not-updated", "at a quiescent point the current result is the error of resolver call %d but the error container does not hold it", cur.n)
				return
			}
		}
		if w.targetErr != nil && cur.err == nil {
			if pe := w.targetErr.GetValue(); pe != nil && *pe != nil {
				c.Fail("C09.P4.stale-target-error", "at a quiescent point the current result is the value of resolver call %d but the error container still holds the error %v of an earlier result", cur.n, *pe)
				return
			}
		}
		if w.target != nil && cur.err != nil && w.target.GetValue() != nil {
			c.Fail("C09.P4.stale-target-value", "at a quiescent point the current result is the error of resolver call %d but the target container still holds value %d", cur.n, w.target.GetValue().id)
			return
		}
	}
	if len(unreleased) == 0 && w.target != nil && w.target.GetValue() != nil {
		c.Fail("C08.E2.target-holds-released-value", "at a quiescent point the target container holds value %d although every resolver result has been released", w.target.GetValue().id)
		return
	}
	// no recording reference may believe in a released value
	for _, h := range rec {
		if l := h.last(); l != nil && l.resolved && (l.v != nil || (l.err == nil && l.rc != nil && l.rc.zero)) {
			if rc := l.rc; rc != nil && rc.rel > 0 && w.rcOfVal(l.v) == rc {
				c.Fail("C08.E2.reference-not-told", "at a quiescent point reference %d still believes value %d is current although it has been released", h.id, rc.n)
				return
			}
		}
	}
	w.checkConsumersQuiescent()
}

// ctxStableSince returns the stamp of the last context change.
func (w *world) ctxStableSince() int {
	if len(w.ctxChangeInv) == 0 {
		return 0
	}
	return w.ctxChangeInv[len(w.ctxChangeInv)-1]
}

// heldThroughout reports whether some reference has been held continuously since stamp.
func (w *world) heldThroughout(since int) bool {
	for _, h := range w.holders {
		if !h.consumer && h.addRet != 0 && h.addRet < since && h.relCalled == 0 {
			return true
		}
	}
	return false
}

func run(c *core.Ctx) {
	w := &world{c: c, byErr: map[error]*rcall{}}
	c.PanicOracle = "C09.P2.panic"
	c.SpinOracle = "C10.SPIN.busy-wait"
	c.PanicClassify = func(text string) string {
		// a panic inside one of the consumer helpers (C10) rather than in AddRef/Release/SetContext (C09)
		for _, f := range []string{"WaitWithReleased", ").Access", ").Wait(", ").Resolve(", ").ResolveWithReleased(", ").AddRefPromise(", "WaitRefCountContainer", "refcountx.(*world).runConsumer", "refcountx.(*world).runAccess", "actor:consumer"} {
			if strings.Contains(text, f) {
				return "C10.P.panic"
			}
		}
		return ""
	}
	w.keep = c.S.PlanP(400)
	w.zeroOK = c.S.PlanP(200)
	switch k := c.S.Plan(10); {
	case k < 5:
		w.target = ccontainer.NewCContainer[*val](nil)
		w.targetErr = ccontainer.NewCContainer[*error](nil)
	case k < 6: // value container only
		w.target = ccontainer.NewCContainer[*val](nil)
	case k < 7: // error container only
		w.targetErr = ccontainer.NewCContainer[*error](nil)
	}
	var ctx0 context.Context
	if c.S.PlanP(600) {
		ctx0, _ = core.TaggedContext(context.Background(), 1)
		w.ctxTag = 1
	}
	w.rc = refcount.NewRefCount(ctx0, w.keep, w.target, w.targetErr, w.resolver)
	c.Descf("refcount: keepUnref=%v target=%v targetErr=%v initialCtx=%v", w.keep, w.target != nil, w.targetErr != nil, ctx0 != nil)
	maxops := 3
	if c.Thorough {
		maxops = 5
	}
	var tasks []*simrt.Task
	nh := c.IntRange(1, 3)
	for i := 0; i < nh; i++ {
		id, n := i, c.IntRange(1, maxops)
		tasks = append(tasks, c.Actor("holder", func() { w.refHolder(id, n) }))
	}
	if n := c.IntRange(0, maxops); n > 0 {
		tasks = append(tasks, c.RelayActor("ctx-changer", n, w.ctxStep)...)
	}
	if n := c.IntRange(0, 3); n > 0 {
		tasks = append(tasks, c.Actor("invalidator", func() { w.invalidator(n) }))
	}
	if w.target != nil && c.S.PlanP(150) {
		// a bystander waits on the target container with a validator that pins the
		// value it is shown (AddRef + Release from inside the validator): validators
		// run without the container's lock, so this cannot deadlock
		tasks = append(tasks, c.Actor("validator-pinner", func() {
			w.maybeGate()
			ctx, cancel := context.WithCancel(context.Background())
			defer cancel()
			g := make(chan struct{})
			w.gates = append(w.gates, g)
			c.Actor("pinner-interrupt", func() {
				simrt.Recv1("refcountx.pinner-gate", g)
				cancel()
			})
			c.S.Count("probe:validator-pins-value")
			_, _ = w.target.WaitValueWithValidator(ctx, func(v *val) (bool, error) {
				var ref *refcount.Ref[*val]
				w.api("AddRef (from a target validator)", func() { ref = w.rc.AddRef(nil) })
				if ref != nil {
					w.api("Ref.Release (from a target validator)", func() { ref.Release() })
				}
				return v != nil, nil
			}, nil)
		}))
	}
	if w.target != nil && c.S.PlanP(250) {
		// a bystander inspects the target container through an identity SwapValue whose
		// callback takes a few steps: the container's lock is busy while the RefCount works
		n := c.IntRange(1, 3)
		tasks = append(tasks, c.Actor("target-inspector", func() {
			for i := 0; i < n && !c.Failed(); i++ {
				w.maybeGate()
				c.S.Count("probe:target-inspected")
				w.target.SwapValue(func(v *val) *val {
					core.YieldN("refcountx.target-inspect", 3)
					return v
				})
			}
		}))
	}
	nc := c.IntRange(0, 2)
	for i := 0; i < nc; i++ {
		x := &consumer{id: i, kind: c.S.Plan(6)}
		if x.kind == 5 && w.target == nil {
			x.kind = 1
		}
		w.consumers = append(w.consumers, x)
		x.task = c.Actor("consumer", func() { w.runConsumer(x) })
		tasks = append(tasks, x.task)
	}
	for round := 0; round < 400; round++ {
		c.S.Quiesce()
		if c.Failed() {
			return
		}
		w.checkQuiescent(false)
		if c.Failed() {
			return
		}
		alldone := true
		for _, t := range tasks {
			if !t.Done() {
				alldone = false
			}
		}
		if alldone {
			break
		}
		// driver-side invalidation at a quiescent point
		if len(w.stored) > 0 && c.S.FaultP(200) {
			rc := w.stored[c.S.Fault(len(w.stored))]
			w.invalidate(rc, "driver")
			continue
		}
		var blocked []*consumer
		for _, x := range w.consumers {
			if x.inCall && x.task.Blocked() && x.cancelReq == 0 {
				blocked = append(blocked, x)
			}
		}
		if len(w.gates) > 0 && (len(blocked) == 0 || !c.S.FaultP(200)) {
			i := c.S.Plan(len(w.gates))
			g := w.gates[i]
			w.gates = append(w.gates[:i], w.gates[i+1:]...)
			close(g)
			continue
		}
		if len(blocked) > 0 {
			x := blocked[c.S.Fault(len(blocked))]
			x.cancelReq = c.Tick()
			c.S.Count("fault:cancel-blocked")
			x.cancel()
			continue
		}
		c.Stuck("no event to inject but actors are not done: %s", c.S.StalledString())
		return
	}
	// final drain
	if w.ctxTag != 0 {
		w.ctxChangeInv = append(w.ctxChangeInv, c.Tick())
		w.ctxChangeRet = append(w.ctxChangeRet, 0)
	}
	w.ctxTag = 0
	w.api("ClearContext", func() { w.rc.ClearContext() })
	for i := 0; i < 50; i++ {
		c.S.Quiesce()
		if len(w.gates) == 0 {
			break
		}
		for _, g := range w.gates {
			close(g)
		}
		w.gates = nil
	}
	if c.Failed() {
		return
	}
	for _, x := range w.consumers {
		if x.inCall && x.task.Blocked() && x.cancelReq == 0 {
			x.cancelReq = c.Tick()
			x.cancel()
		}
	}
	c.S.Quiesce()
	if c.Failed() {
		return
	}
	for _, x := range w.consumers {
		if !x.task.Done() {
			c.Fail("C10.Q.consumer-stuck", "consumer %d (kind %d) has not returned after its context was cancelled and the RefCount's context was cleared: %s", x.id, x.kind, c.S.StalledString())
			return
		}
	}
	for _, rc := range w.calls {
		if rc.returned == 0 {
			c.Fail("HARNESS.resolver-stuck", "resolver call %d has not returned after the drain", rc.n)
			return
		}
	}
	w.checkQuiescent(true)
	if c.Failed() {
		return
	}
	for _, x := range w.consumers {
		if x.kind == 2 && !x.nilCb {
			if x.relCb > 1 {
				c.Fail("C10.W2.released-callback-twice", "the released callback of ResolveWithReleased fired %d times", x.relCb)
				return
			}
			if x.mustFire && x.relCb != 1 {
				c.Fail("C10.W2.released-callback-missing", "the value returned by ResolveWithReleased was dropped while the reference was held, but the released callback fired %d times by the final quiescent point", x.relCb)
				return
			}
		}
	}
}

func init() {
	core.Register(&core.Scenario{
		Name:  "refcount",
		Props: []string{"C08", "C09", "C10"},
		Run:   run,
		NonTrivial: func(n map[string]int) bool {
			return n["fault:invalidate"] > 0 || n["probe:resolver-returns-after-supersession"] > 0 || n["probe:access-reinvoked"] > 0
		},
		Rule: "non-trivial: a released() invalidation was injected, a resolver returned after it had been superseded, or an Access callback was re-invoked with a replacement value",
	})
}
