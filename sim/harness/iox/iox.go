// Package iox: scenario "io" — the stream wrappers and sequential helpers of
// C20 against reference models: iosizer and iocloser with fault-injecting
// streams and concurrent callers, ioproxy over two simulated duplex pipes with
// random chunking, stream errors and external closes at arbitrary instants,
// ioseek over a ReaderAt with short reads, and unique.KeyedList/KeyedMap
// against a map model with change-log replay (the last two are sequential).
package iox

import (
	"bytes"
	"errors"
	"fmt"
	"io"
	"sort"

	"github.com/aperturerobotics/util/iocloser"
	"github.com/aperturerobotics/util/ioproxy"
	"github.com/aperturerobotics/util/ioseek"
	"github.com/aperturerobotics/util/iosizer"
	"github.com/aperturerobotics/util/unique"
	"verifsim/harness/core"
	"verifsim/simrt"
)

var errIO = errors.New("injected-io-error")

// ---------- iosizer ----------

type faultyStream struct {
	c      *core.Ctx
	calls  int
	sumRet int
	data   byte
}

func (f *faultyStream) op(p []byte, kind string) (int, error) {
	c := f.c
	f.calls++
	simrt.Yield("iox.stream-" + kind)
	n := len(p)
	var err error
	switch c.S.Fault(8) {
	case 1:
		if n > 0 {
			n = c.S.Fault(n) // short count, no error
			c.S.Count("fault:io-short")
		}
	case 2:
		if n > 0 {
			n = c.S.Fault(n + 1) // n>0 together with an error
		}
		err = errIO
		c.S.Count("fault:io-err")
	case 3:
		n, err = 0, io.EOF
		c.S.Count("fault:io-eof")
	case 4:
		n, err = 0, errIO
		c.S.Count("fault:io-err")
	}
	for i := 0; i < n; i++ {
		p[i] = f.data
	}
	return n, err
}

func (f *faultyStream) Read(p []byte) (int, error)  { return f.op(p, "read") }
func (f *faultyStream) Write(p []byte) (int, error) { return f.op(p, "write") }

func runSizer(c *core.Ctx) {
	rd := &faultyStream{c: c, data: 'r'}
	wr := &faultyStream{c: c, data: 'w'}
	var s *iosizer.SizeReadWriter
	switch c.S.Plan(4) {
	case 0:
		s = iosizer.NewSizeReadWriter(nil, wr)
	case 1:
		s = iosizer.NewSizeReadWriter(rd, nil)
	default:
		s = iosizer.NewSizeReadWriter(rd, wr)
	}
	total := 0
	nact := c.IntRange(1, 3)
	var tasks []*simrt.Task
	for a := 0; a < nact; a++ {
		nops := c.IntRange(1, 4)
		tasks = append(tasks, c.Actor("sizer-caller", func() {
			for i := 0; i < nops; i++ {
				buf := make([]byte, c.IntRange(0, 9))
				var n int
				var err error
				isRead := c.S.PlanP(500)
				before := rd.calls + wr.calls
				if isRead {
					n, err = s.Read(buf)
				} else {
					n, err = s.Write(buf)
				}
				_ = before
				if n < 0 || n > len(buf) {
					c.Fail("C20.Z1.count-out-of-range", "iosizer returned n=%d for a buffer of %d", n, len(buf))
					return
				}
				if n > 0 {
					total += n
				}
				_ = err
			}
		}))
	}
	c.S.Quiesce()
	for _, t := range tasks {
		if !t.Done() {
			c.Fail("C20.Z2.blocked", "an iosizer call is blocked")
			return
		}
	}
	if got := s.TotalSize(); got != uint64(total) {
		c.Fail("C20.Z1.total", "iosizer.TotalSize()=%d but the byte counts returned by its Read/Write calls sum to %d", got, total)
	}
	c.S.Count("probe:sizer")
}

// ---------- iocloser ----------

type trackedStream struct {
	c        *core.Ctx
	w        *closerWorld
	inFlight int
	calls    int
}

type closerWorld struct {
	c          *core.Ctx
	closeCalls int
	closeRet   int // stamp of the first return of Close
	closeInv   int
	lateCall   bool
}

func (t *trackedStream) op(p []byte) (int, error) {
	c := t.c
	t.calls++
	if t.w.closeRet != 0 {
		c.Fail("C20.K2.stream-touched-after-close", "the wrapped stream was called after Close had returned")
	}
	t.inFlight++
	core.YieldN("iox.closer-stream", c.S.Plan(3))
	t.inFlight--
	n := len(p)
	if n > 0 && c.S.FaultP(300) {
		n = c.S.Fault(n)
		c.S.Count("fault:io-short")
	}
	for i := 0; i < n; i++ {
		p[i] = 'x'
	}
	if c.S.FaultP(150) {
		c.S.Count("fault:io-err")
		return n, errIO
	}
	return n, nil
}
func (t *trackedStream) Read(p []byte) (int, error)  { return t.op(p) }
func (t *trackedStream) Write(p []byte) (int, error) { return t.op(p) }

func runCloser(c *core.Ctx) {
	w := &closerWorld{c: c}
	st := &trackedStream{c: c, w: w}
	closeErr := error(nil)
	if c.S.PlanP(300) {
		closeErr = errors.New("close-error")
	}
	closeFn := func() error {
		w.closeCalls++
		if w.closeCalls > 1 {
			c.Fail("C20.K1.close-func-twice", "the close function ran %d times", w.closeCalls)
		}
		if st.inFlight > 0 {
			c.Fail("C20.K2.closed-during-call", "the close function ran while a call of the wrapped stream was in progress")
		}
		core.YieldN("iox.closefn", c.S.Plan(3))
		return closeErr
	}
	isRead := c.S.PlanP(500)
	nilClose := c.S.PlanP(120)
	var closeArg func() error = closeFn
	if nilClose {
		closeArg = nil
		closeErr = nil
	}
	var rw interface {
		Close() error
	}
	var do func(p []byte) (int, error)
	if isRead {
		r := iocloser.NewReadCloser(st, closeArg)
		rw, do = r, r.Read
	} else {
		x := iocloser.NewWriteCloser(st, closeArg)
		rw, do = x, x.Write
	}
	nact := c.IntRange(1, 3)
	var tasks []*simrt.Task
	for a := 0; a < nact; a++ {
		nops := c.IntRange(1, 4)
		tasks = append(tasks, c.Actor("closer-caller", func() {
			for i := 0; i < nops; i++ {
				buf := make([]byte, c.IntRange(0, 6))
				inv := c.Tick()
				callsBefore := st.calls
				closedBefore := w.closeRet != 0 && w.closeRet < inv
				n, err := do(buf)
				if closedBefore {
					if n != 0 || err != io.EOF {
						c.Fail("C20.K3.after-close-result", "a call issued after Close had returned gave (%d,%v), expected (0,EOF)", n, err)
						return
					}
				} else if st.calls == callsBefore && !(n == 0 && err == io.EOF && w.closeInv != 0) {
					// other callers may have touched the stream meanwhile; only flag the impossible case
					if nact == 1 {
						c.Fail("C20.K3.data-not-passed-through", "a call before Close returned (%d,%v) without touching the wrapped stream", n, err)
						return
					}
				}
			}
		}))
	}
	nclose := c.IntRange(1, 2)
	for a := 0; a < nclose; a++ {
		times := 1
		if c.S.FaultP(400) {
			times = 2
			c.S.Count("fault:double-close")
		}
		tasks = append(tasks, c.Actor("closer-close", func() {
			core.YieldN("iox.close-delay", c.S.Plan(8))
			for i := 0; i < times; i++ {
				if w.closeInv == 0 {
					w.closeInv = c.Tick()
				}
				first := w.closeCalls == 0
				err := rw.Close()
				if w.closeRet == 0 {
					w.closeRet = c.Tick()
				}
				// (a Close that loses the race against a concurrent Close may return
				// before the winner has run the close function: only the total is fixed)
				if nclose == 1 && w.closeCalls != 1 && !nilClose {
					c.Fail("C20.K1.close-func-count", "after Close returned the close function has run %d times", w.closeCalls)
					return
				}
				_ = first
				if err != nil && err != closeErr {
					c.S.Count("probe:close-returned-other-error")
					return
				}
			}
		}))
	}
	c.S.Quiesce()
	for _, t := range tasks {
		if !t.Done() {
			c.Fail("C20.K4.blocked", "an iocloser call is blocked: %s", c.S.StalledString())
			return
		}
	}
	buf := make([]byte, 3)
	if n, err := do(buf); n != 0 || err != io.EOF {
		c.Fail("C20.K3.after-close-result", "a call after Close gave (%d,%v), expected (0,EOF)", n, err)
	}
	if w.closeCalls != 1 && !nilClose {
		c.Fail("C20.K1.close-func-count", "the close function ran %d times", w.closeCalls)
	}
	c.S.Count("probe:closer")
}

// ---------- ioproxy ----------

// pipeEnd is one side of the proxy: what the proxy reads from it is `in`, what the proxy writes to it lands in `out`.
type pipeEnd struct {
	c                     *core.Ctx
	name                  string
	in                    []byte // data still to be handed to the proxy's Read
	eofReady              bool   // the source has ended: Read returns EOF once `in` is drained
	out                   []byte
	closed                int
	readErrAt             int // inject a read error after this many Read calls (-1: never)
	writeErrAt            int
	reads, writes         int
	eofGiven              bool
	eofStamp              int
	firstCloseStamp       int
	readFault, writeFault bool
	rejected              bool
	closeErr              bool
	zeroReads             int
	sent                  []byte // everything that was ever queued in `in`
}

func (p *pipeEnd) Read(b []byte) (int, error) {
	c := p.c
	p.reads++
	simrt.Yield("iox.pipe-read")
	if p.readErrAt >= 0 && p.reads > p.readErrAt {
		p.readFault = true
		c.S.Count("fault:io-err")
		return 0, errIO
	}
	if p.zeroReads < 2 && c.S.FaultP(60) {
		// a Read may return (0, nil): "nothing happened", not EOF
		p.zeroReads++
		c.S.Count("fault:io-zero-read")
		return 0, nil
	}
	c.S.WaitCond("iox.pipe-read(blocked)", func() bool { return len(p.in) > 0 || p.eofReady || p.closed > 0 })
	if p.closed > 0 {
		return 0, io.ErrClosedPipe
	}
	if len(p.in) == 0 {
		p.eofGiven = true
		p.eofStamp = c.Tick()
		return 0, io.EOF
	}
	n := len(p.in)
	if n > len(b) {
		n = len(b)
	}
	if n > 1 {
		n = 1 + c.S.Plan(n) // random chunking
	}
	copy(b, p.in[:n])
	p.in = p.in[n:]
	if len(p.in) == 0 && p.eofReady && c.S.PlanP(400) {
		// the last bytes arrive together with EOF in one Read (allowed by io.Reader)
		c.S.Count("probe:data-with-eof")
		p.eofGiven = true
		p.eofStamp = c.Tick()
		return n, io.EOF
	}
	return n, nil
}

func (p *pipeEnd) Write(b []byte) (int, error) {
	c := p.c
	p.writes++
	simrt.Yield("iox.pipe-write")
	if p.closed > 0 {
		p.rejected = true // the other direction ended first and closed this side: truncation is legitimate
		return 0, io.ErrClosedPipe
	}
	if p.writeErrAt >= 0 && p.writes > p.writeErrAt {
		p.writeFault = true
		c.S.Count("fault:io-err")
		n := 0
		if len(b) > 0 {
			n = c.S.Fault(len(b))
		}
		p.out = append(p.out, b[:n]...)
		return n, errIO
	}
	p.out = append(p.out, b...)
	return len(b), nil
}

func (p *pipeEnd) Close() error {
	simrt.Yield("iox.pipe-close")
	p.closed++
	if p.firstCloseStamp == 0 {
		p.firstCloseStamp = p.c.Tick()
	}
	if p.closeErr {
		return errIO // a failing Close must not change what the proxy does
	}
	return nil
}

func runProxy(c *core.Ctx) {
	a := &pipeEnd{c: c, name: "A", readErrAt: -1, writeErrAt: -1}
	b := &pipeEnd{c: c, name: "B", readErrAt: -1, writeErrAt: -1}
	faults := c.S.PlanP(400)
	a.closeErr, b.closeErr = c.S.PlanP(150), c.S.PlanP(150)
	if faults {
		for _, p := range []*pipeEnd{a, b} {
			if c.S.FaultP(300) {
				p.readErrAt = c.S.Fault(4)
			}
			if c.S.FaultP(300) {
				p.writeErrAt = c.S.Fault(4)
			}
		}
	}
	cbCount := 0
	var cb func()
	if !c.S.PlanP(100) {
		cb = func() { cbCount++ }
	}
	feeder := func(p *pipeEnd, base byte) func() {
		nchunks := c.IntRange(0, 4)
		return func() {
			for i := 0; i < nchunks; i++ {
				core.YieldN("iox.feeder", c.S.Plan(4))
				n := c.IntRange(1, 6)
				chunk := bytes.Repeat([]byte{base + byte(i)}, n)
				p.in = append(p.in, chunk...)
				p.sent = append(p.sent, chunk...)
			}
			core.YieldN("iox.feeder", c.S.Plan(4))
			p.eofReady = true
		}
	}
	fa, fb := feeder(a, 'a'), feeder(b, 'A')
	ioproxy.ProxyStreams(a, b, cb)
	c.Actor("feeder-A", fa)
	c.Actor("feeder-B", fb)
	extClose := false
	if faults && c.S.FaultP(300) {
		// external close of one side at an arbitrary instant
		extClose = true
		side := a
		if c.S.Fault(2) == 1 {
			side = b
		}
		k := c.S.Fault(20)
		c.Actor("ext-closer", func() {
			core.YieldN("iox.ext-close", k)
			c.S.Count("fault:io-close")
			side.Close()
		})
	}
	c.S.Quiesce()
	if c.Failed() {
		return
	}
	// both pumps must have finished: both sides closed, callback twice
	if a.closed == 0 || b.closed == 0 {
		c.Fail("C20.X1.not-closed", "at the final quiescent point side A was closed %d times and side B %d times; both must be closed (%s)", a.closed, b.closed, c.S.StalledString())
		return
	}
	if cb != nil && cbCount != 2 {
		c.Fail("C20.X2.callback-count", "the callback ran %d times, expected exactly 2", cbCount)
		return
	}
	// the pumps stop only for a reason: some side reached EOF, a stream failed, or a side was closed from outside
	if !a.eofGiven && !b.eofGiven && !a.readFault && !b.readFault && !a.writeFault && !b.writeFault && !extClose {
		c.Fail("C20.X4.stopped-without-cause", "both sides were closed although neither side reached EOF, no stream returned an error and nobody closed a side from outside (zero-byte reads: A %d, B %d)", a.zeroReads, b.zeroReads)
		return
	}
	// delivered bytes are a prefix of the bytes sent, in order
	check := func(from, to *pipeEnd) bool {
		if !bytes.HasPrefix(from.sent, to.out) {
			c.Fail("C20.X3.not-a-prefix", "bytes delivered to side %s (%q) are not a prefix of the bytes sent by side %s (%q)", to.name, to.out, from.name, from.sent)
			return false
		}
		// complete delivery when this direction ended by its own EOF before anything was closed or failed
		if from.eofGiven && !extClose && !from.readFault && !to.writeFault && !to.rejected &&
			(to.firstCloseStamp == 0 || from.eofStamp < to.firstCloseStamp) && (from.firstCloseStamp == 0 || from.eofStamp < from.firstCloseStamp) {
			if !bytes.Equal(from.sent, to.out) {
				c.Fail("C20.X3.bytes-lost", "side %s reached EOF before any side was closed and no stream failed, but only %q of %q arrived at side %s", from.name, to.out, from.sent, to.name)
				return false
			}
			c.S.Count("probe:proxy-direction-complete")
		}
		return true
	}
	if check(a, b) {
		check(b, a)
	}
}

// ---------- ioseek (sequential) ----------

type shortReaderAt struct {
	c    *core.Ctx
	data []byte
}

func (r *shortReaderAt) ReadAt(p []byte, off int64) (int, error) {
	if off >= int64(len(r.data)) {
		return 0, io.EOF
	}
	n := copy(p, r.data[off:])
	if n > 1 && r.c.S.FaultP(350) {
		n = 1 + r.c.S.Fault(n-1)
		r.c.S.Count("fault:io-short")
		return n, io.ErrUnexpectedEOF
	}
	if n < len(p) {
		return n, io.EOF
	}
	return n, nil
}

func runSeek(c *core.Ctx) {
	size := c.IntRange(0, 12)
	data := make([]byte, size)
	for i := range data {
		data[i] = byte('0' + i)
	}
	ra := &shortReaderAt{c: c, data: data}
	s := ioseek.NewReaderAtSeeker(ra, int64(size))
	pos := int64(0)
	nops := c.IntRange(2, 10)
	for i := 0; i < nops; i++ {
		if c.S.PlanP(500) {
			whence := c.S.Plan(4) // 3 = invalid
			off := int64(c.IntRange(-3, size+3))
			if whence == io.SeekEnd {
				off = int64(c.IntRange(-size-3, 3))
			}
			var want int64
			ok := true
			switch whence {
			case io.SeekStart:
				want = off
			case io.SeekCurrent:
				want = pos + off
			case io.SeekEnd:
				want = int64(size) + off
			default:
				ok = false
			}
			if want < 0 || want > int64(size) {
				ok = false
			}
			got, err := s.Seek(off, whence)
			c.Descf("Seek(%d,%d) -> (%d,%v) model pos %d", off, whence, got, err, pos)
			if ok {
				if err != nil || got != want {
					c.Fail("C20.S1.seek-result", "Seek(%d, whence %d) at position %d of %d returned (%d,%v), the model says (%d,nil)", off, whence, pos, size, got, err, want)
					return
				}
				pos = want
			} else {
				c.S.Count("probe:seek-out-of-range")
				if err == nil {
					c.Fail("C20.S1.seek-accepted-out-of-range", "Seek(%d, whence %d) at position %d of %d succeeded with %d; it is out of range", off, whence, pos, size, got)
					return
				}
			}
		} else {
			buf := make([]byte, c.IntRange(0, 6))
			n, err := s.Read(buf)
			if n < 0 || int(pos)+n > size || !bytes.Equal(buf[:n], data[pos:int(pos)+n]) {
				c.Fail("C20.S2.read-data", "Read at position %d returned %q (n=%d, err=%v); the data there is %q", pos, buf[:max(n, 0)], n, err, data[min(int(pos), size):])
				return
			}
			if n == 0 && len(buf) > 0 && err == nil {
				c.Fail("C20.S2.read-no-progress", "Read at position %d of %d returned (0,nil)", pos, size)
				return
			}
			pos += int64(n)
		}
		// the position is observable through Seek(0, SeekCurrent)
		got, err := s.Seek(0, io.SeekCurrent)
		if err != nil || got != pos {
			c.Fail("C20.S1.position", "after operation %d the position is (%d,%v), the model says %d", i, got, err, pos)
			return
		}
	}
	c.S.Count("probe:seek")
}

// ---------- unique (sequential) ----------

type uval [2]int // key, version; two versions are "identical" when version/2 matches

func runUnique(c *core.Ctx) {
	type change struct {
		k              int
		v              uval
		added, removed bool
	}
	var log []change
	cmp := func(k int, a, b uval) bool { return a[1]/2 == b[1]/2 }
	changed := func(k int, v uval, added, removed bool) { log = append(log, change{k, v, added, removed}) }
	model := map[int]uval{}
	isMap := c.S.PlanP(450)
	var initial []uval
	for i := 0; i < c.S.Plan(3); i++ {
		v := uval{c.S.Plan(4), c.S.Plan(6)}
		initial = append(initial, v)
		model[v[0]] = v
	}
	var l *unique.KeyedList[int, uval]
	var m *unique.KeyedMap[int, uval]
	if isMap {
		init := map[int]uval{}
		for k, v := range model {
			init[k] = v
		}
		m = unique.NewKeyedMap(cmp, changed, init)
		init[99] = uval{99, 0} // the caller's map is its own: later changes to it must not leak in
	} else {
		l = unique.NewKeyedList(func(v uval) int { return v[0] }, cmp, changed, initial)
	}
	contents := func() map[int]uval {
		out := map[int]uval{}
		var keys []int
		var vals []uval
		if isMap {
			keys, vals = m.GetKeys(), m.GetValues()
		} else {
			keys, vals = l.GetKeys(), l.GetValues()
		}
		if len(keys) != len(vals) {
			c.Fail("C20.U1.keys-values-mismatch", "GetKeys has %d entries, GetValues %d", len(keys), len(vals))
		}
		for _, v := range vals {
			if _, dup := out[v[0]]; dup {
				c.Fail("C20.U1.duplicate-key", "two values with key %d", v[0])
			}
			out[v[0]] = v
		}
		for _, k := range keys {
			if _, ok := out[k]; !ok {
				c.Fail("C20.U1.keys-values-mismatch", "key %d has no value", k)
			}
		}
		return out
	}
	show := func(mm map[int]uval) string {
		var ks []int
		for k := range mm {
			ks = append(ks, k)
		}
		sort.Ints(ks)
		s := ""
		for _, k := range ks {
			s += fmt.Sprintf("%d:%v ", k, mm[k])
		}
		return s
	}
	// a map the caller owns, edits and passes again and again (KeyedMap only)
	callerMap := map[int]uval{}
	callerWant := ""
	nops := c.IntRange(2, 8)
	for i := 0; i < nops && !c.Failed(); i++ {
		prev := contents()
		log = nil
		n := c.S.Plan(5)
		var vals []uval
		for j := 0; j < n; j++ {
			vals = append(vals, uval{c.S.Plan(4), c.S.Plan(6)}) // duplicates within one call are likely
		}
		apply := func(v uval) {
			if old, ok := model[v[0]]; ok {
				if !cmp(v[0], v, old) {
					model[v[0]] = v
				}
			} else {
				model[v[0]] = v
			}
		}
		op := c.S.Plan(4)
		if isMap && op == 2 {
			op = 3
		}
		checkCaller := func() {}
		switch op {
		case 0: // SetValues
			seen := map[int]bool{}
			if isMap {
				mm := map[int]uval{}
				reuse := c.S.PlanP(400)
				if reuse {
					mm = callerMap // the same map object as in earlier calls, edited in between
					c.S.Count("probe:caller-map-reused")
				}
				for _, v := range vals {
					mm[v[0]] = v
				}
				if reuse && len(mm) > 2 {
					for k := range mm {
						if k%2 == 0 {
							delete(mm, k)
						}
					}
				}
				want := map[int]uval{}
				for k, v := range mm {
					want[k] = v
				}
				if reuse {
					callerWant = show(mm)
				}
				checkCaller = func() {
					if show(want) != show(mm) {
						c.Fail("C20.U4.caller-map-modified", "KeyedMap changed the map its caller passed: it was {%s}, now it is {%s}", show(want), show(mm))
					}
				}
				c.Descf("KeyedMap.SetValues(%v) reuse=%v", mm, reuse)
				for k, v := range mm {
					seen[k] = true
					apply(v)
				}
				m.SetValues(mm)
			} else {
				c.Descf("KeyedList.SetValues(%v)", vals)
				for _, v := range vals {
					seen[v[0]] = true
					apply(v)
				}
				l.SetValues(vals...)
			}
			for k := range model {
				if !seen[k] {
					delete(model, k)
				}
			}
		case 1: // AppendValues
			if isMap {
				mm := map[int]uval{}
				for _, v := range vals {
					mm[v[0]] = v
				}
				c.Descf("KeyedMap.AppendValues(%v)", mm)
				for _, v := range mm {
					apply(v)
				}
				m.AppendValues(mm)
			} else {
				c.Descf("KeyedList.AppendValues(%v)", vals)
				for _, v := range vals {
					apply(v)
				}
				l.AppendValues(vals...)
			}
		case 2: // RemoveValues (list only)
			c.Descf("KeyedList.RemoveValues(%v)", vals)
			for _, v := range vals {
				delete(model, v[0])
			}
			l.RemoveValues(vals...)
		default: // RemoveKeys
			var keys []int
			for _, v := range vals {
				keys = append(keys, v[0])
				delete(model, v[0])
			}
			c.Descf("RemoveKeys(%v)", keys)
			if isMap {
				m.RemoveKeys(keys...)
			} else {
				l.RemoveKeys(keys...)
			}
		}
		checkCaller()
		// the caller's map stays the caller's: library operations (now or later) must not touch it
		if isMap && show(callerMap) != callerWant {
			c.Fail("C20.U4.caller-map-modified", "a KeyedMap operation changed a map that belongs to its caller: it was {%s}, now it is {%s}", callerWant, show(callerMap))
			return
		}
		got := contents()
		if show(got) != show(model) {
			c.Fail("C20.U2.contents", "after operation %d the contents are {%s}, the model says {%s}", i, show(got), show(model))
			return
		}
		// replay the change notifications on the previous contents
		rep := map[int]uval{}
		for k, v := range prev {
			rep[k] = v
		}
		for _, ch := range log {
			switch {
			case ch.removed:
				if old, ok := rep[ch.k]; !ok || old != ch.v {
					c.Fail("C20.U3.notification", "a removal of key %d with value %v was notified, but the contents held %v (present=%v)", ch.k, ch.v, old, ok)
					return
				}
				delete(rep, ch.k)
			case ch.added:
				if _, ok := rep[ch.k]; ok {
					c.Fail("C20.U3.notification", "key %d was notified as added but was already present", ch.k)
					return
				}
				rep[ch.k] = ch.v
			default:
				if _, ok := rep[ch.k]; !ok {
					c.Fail("C20.U3.notification", "key %d was notified as changed but was not present", ch.k)
					return
				}
				rep[ch.k] = ch.v
			}
		}
		if show(rep) != show(got) {
			c.Fail("C20.U3.replay", "replaying the %d change notifications on the previous contents gives {%s}, the contents are {%s}", len(log), show(rep), show(got))
			return
		}
	}
	c.S.Count("probe:unique")
}

func run(c *core.Ctx) {
	c.PanicOracle = "C20.P.panic"
	switch c.S.Plan(10) {
	case 0, 1:
		c.Descf("part: iosizer")
		runSizer(c)
	case 2, 3:
		c.Descf("part: iocloser")
		runCloser(c)
	case 4, 5, 6:
		c.Descf("part: ioproxy")
		runProxy(c)
	case 7:
		c.Descf("part: ioseek (sequential)")
		runSeek(c)
	default:
		c.Descf("part: unique (sequential)")
		runUnique(c)
	}
}

func init() {
	core.Register(&core.Scenario{
		Name:  "io",
		Props: []string{"C20"},
		Run:   run,
		NonTrivial: func(n map[string]int) bool {
			return n["fault:io-short"]+n["fault:io-err"]+n["fault:io-eof"]+n["fault:io-close"]+n["fault:double-close"]+n["probe:seek-out-of-range"]+n["probe:proxy-direction-complete"]+n["probe:unique"] > 0
		},
		Rule: "non-trivial: a stream fault (short count, error, EOF, external close, double close) fired, an out-of-range Seek was issued, a proxy direction completed by EOF, or a unique.* operation sequence ran",
	})
}
