// Package ccallx: scenario "ccall" — ccall.CallConcurrently under seeded
// schedules: 0..5 functions including nil entries, scripted outcomes and
// completion latencies, caller cancellation at an arbitrary step. C17.
package ccallx

import (
	"context"
	"fmt"

	"github.com/aperturerobotics/util/ccall"
	"verifsim/harness/core"
	"verifsim/simrt"
)

type fnRec struct {
	id       int
	entered  int
	returned int
	err      error
	ctx      context.Context
}

func run(c *core.Ctx) {
	c.PanicOracle = "C17.P.panic"
	c.SpinOracle = "C17.SPIN.busy-wait"
	n := c.IntRange(0, 5)
	var fns []ccall.CallConcurrentlyFunc
	var recs []*fnRec
	nonNil := 0
	var gates []chan struct{}
	for i := 0; i < n; i++ {
		if c.S.PlanP(150) {
			fns = append(fns, nil)
			c.Descf("fn %d: nil", i)
			c.S.Count("fault:nil-arg")
			continue
		}
		nonNil++
		r := &fnRec{id: i}
		recs = append(recs, r)
		beh := c.S.Plan(8)
		if beh == 7 && n < 2 {
			// a single function is documented to run on the calling goroutine: the call
			// cannot return before it does, so a deaf one is only used among several
			beh = 5
		}
		delay := c.S.Plan(5)
		c.Descf("fn %d: behaviour %d delay %d", i, beh, delay)
		fns = append(fns, func(ctx context.Context) error {
			r.entered++
			r.ctx = ctx
			if r.entered > 1 {
				c.Fail("C17.F1.entered-twice", "function %d was entered %d times", r.id, r.entered)
			}
			defer func() { r.returned = c.Tick() }()
			core.YieldN("ccallx.fn", delay)
			switch beh {
			case 0, 1:
				return nil
			case 2:
				r.err = fmt.Errorf("fn-error-%d", r.id)
				return r.err
			case 3:
				r.err = context.Canceled
				return r.err
			case 6: // an error that merely wraps context.Canceled is a real error of this function
				r.err = fmt.Errorf("fn-%d failed: %w", r.id, context.Canceled)
				return r.err
			case 7: // deaf to its context: only the gate ends it
				g := make(chan struct{})
				gates = append(gates, g)
				c.S.Count("probe:deaf-function")
				simrt.Recv1("ccallx.fn-deaf", g)
				return nil
			case 4: // waits for its context, then returns its error
				simrt.Recv1("ccallx.fn-wait", ctx.Done())
				r.err = context.Canceled
				return r.err
			default: // waits for a gate or its context
				g := make(chan struct{})
				gates = append(gates, g)
				if simrt.Select("ccallx.fn-wait", simrt.Recv(ctx.Done()), simrt.Recv(g)) == 0 {
					r.err = context.Canceled
					return r.err
				}
				return nil
			}
		})
	}
	ctx, cancel := context.WithCancel(context.Background())
	defer cancel()
	cancelReq := 0
	inCall := false
	switch c.S.Fault(8) {
	case 1:
		cancelReq = c.Tick()
		c.S.Count("fault:cancel-before")
		cancel()
	case 2, 3:
		k := c.S.Fault(20)
		c.S.GoNamed("canceller", func() {
			core.YieldN("ccallx.canceller", k)
			if inCall && cancelReq == 0 {
				cancelReq = c.Tick()
				c.S.Count("fault:cancel-async")
				cancel()
			}
		})
	}
	var res error
	var ret int
	caller := c.Actor("caller", func() {
		inCall = true
		res = ccall.CallConcurrently(ctx, fns...)
		ret = c.Tick()
		inCall = false
	})
	for round := 0; round < 100; round++ {
		c.S.Quiesce()
		if c.Failed() {
			return
		}
		if caller.Done() {
			break
		}
		// the caller is blocked: it may only be blocked while some function is still running
		running := 0
		for _, r := range recs {
			if r.entered > 0 && r.returned == 0 {
				running++
			}
		}
		if cancelReq != 0 {
			c.Fail("C17.Q.cancelled-caller-blocked", "CallConcurrently is blocked at a quiescent point although the caller's context was cancelled")
			return
		}
		if running == 0 {
			c.Fail("C17.Q.blocked-with-nothing-running", "CallConcurrently is blocked at a quiescent point although every function has returned")
			return
		}
		for _, r := range recs {
			if r.returned != 0 && r.err != nil && r.err != context.Canceled {
				c.Fail("C17.Q.blocked-despite-real-error", "CallConcurrently is still blocked at a quiescent point although function %d has returned the error %v", r.id, r.err)
				return
			}
		}
		c.S.Count("probe:caller-blocked-at-quiescence")
		if len(gates) > 0 && !c.S.FaultP(300) {
			g := gates[0]
			gates = gates[1:]
			close(g)
			continue
		}
		cancelReq = c.Tick()
		c.S.Count("fault:cancel-blocked")
		cancel()
	}
	if !caller.Done() {
		c.Stuck("caller not done")
		return
	}
	// oracle on the result
	var realErrBefore, anyRealErr bool
	allNilBefore := true
	cancelledFn := false
	for _, r := range recs {
		if r.entered != 1 {
			if r.entered == 0 {
				c.Fail("C17.F1.not-run", "non-nil function %d was never run", r.id)
				return
			}
		}
		doneBefore := r.returned != 0 && r.returned < ret
		if !(doneBefore && r.err == nil) {
			allNilBefore = false
		}
		if r.err != nil && r.err != context.Canceled {
			anyRealErr = true
			if doneBefore {
				realErrBefore = true
			}
		}
		if doneBefore && r.err == context.Canceled {
			cancelledFn = true
		}
	}
	switch {
	case res == nil:
		if !allNilBefore {
			c.Fail("C17.R1.nil-despite-failure", "CallConcurrently returned nil although not every function had returned nil before (real error returned before: %v)", realErrBefore)
		}
	case res == context.Canceled:
		if cancelReq == 0 {
			// live caller context: all functions had returned, one of them Canceled, none a real error
			for _, r := range recs {
				if r.returned == 0 || r.returned > ret {
					c.Fail("C17.R3.canceled-while-running", "CallConcurrently returned context.Canceled with a live caller context while function %d was still running", r.id)
					return
				}
			}
			if !cancelledFn || realErrBefore {
				c.Fail("C17.R3.canceled-from-nowhere", "CallConcurrently returned context.Canceled with a live caller context (a function returned Canceled: %v, a real error: %v)", cancelledFn, realErrBefore)
			}
		}
	default:
		ok := false
		for _, r := range recs {
			if r.err == res && r.returned != 0 && r.returned < ret {
				ok = true
			}
		}
		if !ok {
			c.Fail("C17.R2.error-from-nowhere", "CallConcurrently returned %v, which no function had returned", res)
		}
	}
	if realErrBefore && cancelReq == 0 && (res == nil || res == context.Canceled) {
		c.Fail("C17.R1.real-error-lost", "a function returned a real error before CallConcurrently returned and the caller's context stayed live, but the result is %v", res)
	}
	_ = anyRealErr
	// after the return every function's context is cancelled
	for _, r := range recs {
		if r.ctx != nil && r.ctx.Err() == nil {
			c.Fail("C17.R4.context-not-cancelled", "after CallConcurrently returned, the context given to function %d is still live", r.id)
			return
		}
	}
	// let stragglers finish (their contexts are cancelled)
	for _, g := range gates {
		close(g)
	}
}

func init() {
	core.Register(&core.Scenario{
		Name:  "ccall",
		Props: []string{"C17"},
		Run:   run,
		NonTrivial: func(n map[string]int) bool {
			return n["probe:mutex-contended"] > 0 || n["probe:caller-blocked-at-quiescence"] > 0 || n["fault:cancel-async"] > 0
		},
		Rule: "non-trivial: worker and caller critical sections contended, the caller was parked at a quiescent point, or a cancellation landed inside the call",
	})
}
