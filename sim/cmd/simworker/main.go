// simworker runs simulated executions of one scenario: a batch of seeds, a
// replay of a recorded tape, or the minimisation of a failing tape.
package main

import (
	"encoding/json"
	"flag"
	"fmt"
	"os"
	"runtime"
	"sort"
	"strings"
	"time"

	_ "verifsim/harness/bcastx"
	_ "verifsim/harness/ccallx"
	_ "verifsim/harness/ccontx"
	_ "verifsim/harness/concx"
	"verifsim/harness/core"
	_ "verifsim/harness/csyncx"
	_ "verifsim/harness/iox"
	_ "verifsim/harness/keyedx"
	_ "verifsim/harness/oncex"
	_ "verifsim/harness/promisex"
	_ "verifsim/harness/refcountx"
	_ "verifsim/harness/routinex"
	_ "verifsim/harness/stackx"
	"verifsim/simrt"
)

// ViolationRec is a recorded violation with everything needed to replay it.
type ViolationRec struct {
	Scenario   string      `json:"scenario"`
	Property   string      `json:"property"`
	Oracle     string      `json:"oracle"`
	Msg        string      `json:"msg"`
	Step       int         `json:"step"`
	Seed       uint64      `json:"seed"`
	Thorough   bool        `json:"thorough"`
	Hash       string      `json:"event_hash"`
	Tape       *simrt.Tape `json:"tape"`
	Desc       []string    `json:"plan,omitempty"`
	LogTail    []string    `json:"last_events,omitempty"`
	Minimised  bool        `json:"minimised"`
	ShrinkRuns int         `json:"shrink_runs,omitempty"`
	OrigLen    [3]int      `json:"original_tape_len,omitempty"`
}

// BatchResult is what a batch worker reports.
type BatchResult struct {
	Scenario    string         `json:"scenario"`
	Runs        int            `json:"runs"`
	Steps       int64          `json:"steps"`
	SimNs       int64          `json:"sim_ns"`
	Truncated   int            `json:"truncated"`
	NonTrivial  int            `json:"nontrivial_runs"`
	Counts      map[string]int `json:"counts"`    // total firings
	RunsWith    map[string]int `json:"runs_with"` // runs in which the counter fired
	Strategies  map[string]int `json:"strategies"`
	Hashes      []uint64       `json:"-"`
	NTHashes    []uint64       `json:"nt_hashes"`
	HashCapHit  bool           `json:"hash_cap_hit"`
	Violations  []ViolationRec `json:"violations"`
	ViolCount   map[string]int `json:"violation_counts"`
	Samples     [][]string     `json:"samples"`
	DetChecks   int            `json:"determinism_double_runs"`
	DetFail     []string       `json:"determinism_failures"`
	WallS       float64        `json:"wall_s"`
	Parker      string         `json:"parker"`
	RaceReports int            `json:"race_reports_total"`
	RaceKept    int            `json:"race_reports_library"`
}

var raceScan *raceScanner

// raceViolation converts new race reports of the run into a violation of C13.
func raceViolation(o *core.Outcome) {
	if raceScan == nil {
		return
	}
	reps := raceScan.scan()
	if len(reps) == 0 || o.Violation != nil && !strings.HasPrefix(o.Violation.Oracle, "C13.") {
		if len(reps) == 0 {
			return
		}
	}
	r := reps[0]
	msg := fmt.Sprintf("data race involving library code (%d report(s) in this run); first:\n%s", len(reps), r.Text)
	o.Violation = &simrt.Violation{Oracle: "C13.race." + r.Sig, Msg: msg, Step: o.Steps}
}

func seedFor(seed0 uint64, i int) uint64 {
	v := seed0 + uint64(i)*0x9E3779B97F4A7C15
	v = (v ^ (v >> 30)) * 0xBF58476D1CE4E5B9
	v = (v ^ (v >> 27)) * 0x94D049BB133111EB
	return v ^ (v >> 31)
}

func mkRec(sc *core.Scenario, o *core.Outcome, thorough bool) ViolationRec {
	return ViolationRec{Scenario: sc.Name, Property: core.PropOf(o.Violation.Oracle), Oracle: o.Violation.Oracle, Msg: o.Violation.Msg,
		Step: o.Violation.Step, Seed: o.Seed, Thorough: thorough, Hash: fmt.Sprintf("%016x", o.Hash), Tape: o.Tape, Desc: o.Desc, LogTail: o.LogTail}
}

func writeJSON(path string, v any) {
	b, err := json.MarshalIndent(v, "", " ")
	if err != nil {
		fmt.Fprintln(os.Stderr, "simworker: marshal:", err)
		os.Exit(2)
	}
	if path == "" || path == "-" {
		os.Stdout.Write(b)
		os.Stdout.Write([]byte("\n"))
		return
	}
	if err := os.WriteFile(path, b, 0o644); err != nil {
		fmt.Fprintln(os.Stderr, "simworker:", err)
		os.Exit(2)
	}
}

// watchdog: a task that never reaches a scheduling point (a loop without any
// synchronisation operation, a block on a primitive the simulator does not own)
// would hang the worker for ever. No scheduler step for 60 s of wall-clock time:
// dump all stacks and exit 3 (the driver reports it as infrastructure trouble).
func watchdog() {
	last, since := simrt.Heartbeat.Load(), time.Now()
	for {
		time.Sleep(2 * time.Second)
		if h := simrt.Heartbeat.Load(); h != last {
			last, since = h, time.Now()
			continue
		}
		if time.Since(since) > 60*time.Second {
			buf := make([]byte, 1<<20)
			n := runtime.Stack(buf, true)
			fmt.Fprintf(os.Stderr, "WATCHDOG: no scheduling step for %v: a task is looping or blocked outside the simulator\n%s\n", time.Since(since).Round(time.Second), buf[:n])
			os.Exit(3)
		}
	}
}

func main() {
	scn := flag.String("scenario", "", "scenario name")
	seed0 := flag.Uint64("seed0", 1, "base seed")
	count := flag.Int("count", 1000, "max runs")
	secs := flag.Float64("secs", 0, "wall-clock budget (0 = none)")
	thorough := flag.Bool("thorough", false, "thorough bounds")
	only := flag.String("only", "", "only report violations of this property")
	out := flag.String("out", "-", "output file")
	replay := flag.String("replay", "", "replay a violation file (strict)")
	shrink := flag.String("shrink", "", "minimise a violation file")
	hashCap := flag.Int("hashcap", 400000, "max hashes kept")
	stopAfter := flag.Int("stop-after", 8, "stop the batch after this many violations")
	list := flag.Bool("list", false, "list scenarios")
	dumpHashes := flag.Bool("dumphashes", false, "print seed, event hash and step count of every run (determinism self-test)")
	raceLog := flag.String("racelog", "", "GORACE log_path of this process: scan it after every run (C13)")
	libPrefix := flag.String("libprefix", "/repo", "path prefix of library source files in race reports")
	flag.Parse()

	if !simrt.SelfTestChanLayout() {
		fmt.Fprintln(os.Stderr, "simworker: channel header layout self-test failed (unsupported Go runtime)")
		os.Exit(2)
	}
	if *list {
		for _, n := range core.Names() {
			fmt.Println(n)
		}
		return
	}
	if *raceLog != "" {
		raceScan = newRaceScanner(*raceLog, *libPrefix)
	}
	go watchdog()
	if *replay != "" {
		doReplay(*replay, *out)
		return
	}
	if *shrink != "" {
		doShrink(*shrink, *out)
		return
	}
	sc := core.Lookup(*scn)
	if sc == nil {
		fmt.Fprintln(os.Stderr, "simworker: unknown scenario", *scn)
		os.Exit(2)
	}
	res := &BatchResult{Scenario: sc.Name, Counts: map[string]int{}, RunsWith: map[string]int{}, Strategies: map[string]int{}, ViolCount: map[string]int{}, Parker: simrt.ParkerKind}
	start := time.Now()
	seen := map[uint64]struct{}{}
	for i := 0; i < *count; i++ {
		if *secs > 0 && i%16 == 0 && time.Since(start).Seconds() > *secs {
			break
		}
		seed := seedFor(*seed0, i)
		wantDesc := i < 3
		o := core.RunOne(sc, seed, core.RunOpts{Thorough: *thorough, WantDesc: wantDesc, Only: *only})
		raceViolation(o)
		if *dumpHashes {
			fmt.Printf("%d %016x %d %s\n", seed, o.Hash, o.Steps, oracleOf(o))
		}
		res.Runs++
		res.Steps += int64(o.Steps)
		res.SimNs += o.SimNs
		if o.Trunc {
			res.Truncated++
		}
		for k, v := range o.Counts {
			res.Counts[k] += v
			res.RunsWith[k]++
		}
		res.Strategies[o.Strategy]++
		nt := sc.NonTrivial == nil || sc.NonTrivial(o.Counts)
		if nt {
			res.NonTrivial++
			if _, ok := seen[o.Hash]; !ok {
				if len(seen) < *hashCap {
					seen[o.Hash] = struct{}{}
				} else {
					res.HashCapHit = true
				}
			}
		}
		if wantDesc {
			res.Samples = append(res.Samples, append([]string{fmt.Sprintf("seed=%d strategy=%s steps=%d", seed, o.Strategy, o.Steps)}, o.Desc...))
		}
		if i%64 == 63 {
			// determinism double-run
			o2 := core.RunOne(sc, seed, core.RunOpts{Thorough: *thorough, Only: *only})
			res.DetChecks++
			if o2.Hash != o.Hash || o2.Steps != o.Steps {
				res.DetFail = append(res.DetFail, fmt.Sprintf("seed %d: hash %016x/%016x steps %d/%d", seed, o.Hash, o2.Hash, o.Steps, o2.Steps))
			}
		}
		if o.Violation != nil {
			prop := core.PropOf(o.Violation.Oracle)
			if *only != "" && prop != *only && prop != "HARNESS" {
				continue
			}
			res.ViolCount[o.Violation.Oracle]++
			// keep at most 3 per oracle id
			if res.ViolCount[o.Violation.Oracle] <= 3 {
				// re-run with log and description for the record
				if !strings.HasPrefix(o.Violation.Oracle, "C13.") {
					o3 := core.RunOne(sc, seed, core.RunOpts{Thorough: *thorough, WantDesc: true, KeepLog: 120, Only: *only})
					if o3.Violation != nil && o3.Violation.Oracle == o.Violation.Oracle {
						o = o3
					}
				}
				res.Violations = append(res.Violations, mkRec(sc, o, *thorough))
			}
			if len(res.Violations) >= *stopAfter {
				break
			}
		}
	}
	for h := range seen {
		res.NTHashes = append(res.NTHashes, h)
	}
	sort.Slice(res.NTHashes, func(i, j int) bool { return res.NTHashes[i] < res.NTHashes[j] })
	res.WallS = time.Since(start).Seconds()
	if raceScan != nil {
		res.RaceReports, res.RaceKept = raceScan.Total, raceScan.Kept
	}
	writeJSON(*out, res)
}

func loadRec(path string) *ViolationRec {
	b, err := os.ReadFile(path)
	if err != nil {
		fmt.Fprintln(os.Stderr, "simworker:", err)
		os.Exit(2)
	}
	var r ViolationRec
	if err := json.Unmarshal(b, &r); err != nil {
		fmt.Fprintln(os.Stderr, "simworker: bad replay file:", err)
		os.Exit(2)
	}
	return &r
}

// doReplay re-executes a recorded tape strictly. Exit 0 and "REPRODUCED" if
// the same oracle fires at the same step with the same event hash; exit 3 and
// "NOT-REPRODUCED" if no violation or a different one; "REPLAY-DIVERGED" if the
// tape no longer fits the code.
func doReplay(path, out string) {
	r := loadRec(path)
	sc := core.Lookup(r.Scenario)
	if sc == nil {
		fmt.Fprintln(os.Stderr, "simworker: unknown scenario", r.Scenario)
		os.Exit(2)
	}
	o := core.RunOne(sc, r.Seed, core.RunOpts{Only: core.PropOf(r.Oracle), Thorough: r.Thorough, WantDesc: true, KeepLog: 200, Replay: r.Tape})
	if strings.HasPrefix(r.Oracle, "C13.") {
		// A race report is reproduced if the same pair of library frames is
		// reported again. The schedule is exactly the recorded one every time;
		// what can differ between processes is which of the earlier accesses the
		// detector still remembers (its shadow cells keep a few accesses per
		// word and evict pseudo-randomly), so the same tape is executed again,
		// up to 40 times, until the pair is reported.
		o.Violation = nil
		for attempt := 0; attempt < 40 && o.Violation == nil && raceScan != nil; attempt++ {
			if attempt > 0 {
				o = core.RunOne(sc, r.Seed, core.RunOpts{Only: core.PropOf(r.Oracle), Thorough: r.Thorough, WantDesc: true, KeepLog: 200, Replay: r.Tape})
			}
			for _, rep := range raceScan.scan() {
				if "C13.race."+rep.Sig == r.Oracle {
					o.Violation = &simrt.Violation{Oracle: r.Oracle, Msg: rep.Text, Step: r.Step}
				}
			}
		}
	}
	status := "NOT-REPRODUCED"
	if o.Violation != nil && o.Violation.Oracle == r.Oracle {
		status = "REPRODUCED"
		if fmt.Sprintf("%016x", o.Hash) != r.Hash || o.Violation.Step != r.Step {
			status = "REPRODUCED-DIFFERENT-TRACE"
		}
	} else if o.ReplayBad > 0 {
		status = "REPLAY-DIVERGED"
	}
	fmt.Printf("%s oracle=%s step=%d hash=%016x (recorded: oracle=%s step=%d hash=%s)\n", status, oracleOf(o), stepOf(o), o.Hash, r.Oracle, r.Step, r.Hash)
	if o.Violation != nil {
		fmt.Println("violation:", o.Violation.Msg)
	}
	if out != "-" && out != "" {
		nr := *r
		if o.Violation != nil {
			nr = mkRec(sc, o, r.Thorough)
		}
		writeJSON(out, nr)
	} else {
		for _, l := range o.Desc {
			fmt.Println("  plan:", l)
		}
		for _, l := range o.LogTail {
			fmt.Println("  ", l)
		}
	}
	if status == "REPRODUCED" {
		os.Exit(0)
	}
	os.Exit(3)
}

func oracleOf(o *core.Outcome) string {
	if o.Violation == nil {
		return "-"
	}
	return o.Violation.Oracle
}
func stepOf(o *core.Outcome) int {
	if o.Violation == nil {
		return -1
	}
	return o.Violation.Step
}

// doShrink minimises the tape of a violation with delta debugging in lenient
// replay mode; a candidate is kept iff the same oracle id fires.
func doShrink(path, out string) {
	r := loadRec(path)
	sc := core.Lookup(r.Scenario)
	if sc == nil {
		fmt.Fprintln(os.Stderr, "simworker: unknown scenario", r.Scenario)
		os.Exit(2)
	}
	budget := 1200
	runs := 0
	best := cloneTape(r.Tape)
	orig := [3]int{len(best.Plan), len(best.Fault), len(best.Sched)}
	test := func(t *simrt.Tape) (*core.Outcome, bool) {
		if runs >= budget {
			return nil, false
		}
		runs++
		o := core.RunOne(sc, r.Seed, core.RunOpts{Only: core.PropOf(r.Oracle), Thorough: r.Thorough, Replay: t, Lenient: true})
		return o, o.Violation != nil && o.Violation.Oracle == r.Oracle
	}
	// normalise: the recorded tape of a successful lenient replay is exact
	if o, ok := test(best); ok {
		best = cloneTape(o.Tape)
	} else {
		fmt.Fprintln(os.Stderr, "simworker: shrink: the violation does not reproduce from its own tape")
		os.Exit(3)
	}
	streams := []func(t *simrt.Tape) *[]uint32{
		func(t *simrt.Tape) *[]uint32 { return &t.Plan },
		func(t *simrt.Tape) *[]uint32 { return &t.Fault },
		func(t *simrt.Tape) *[]uint32 { return &t.Sched },
	}
	changed := true
	for pass := 0; pass < 4 && changed && runs < budget; pass++ {
		changed = false
		for _, get := range streams {
			// delete chunks, large to small (later choices shift: fewer actors/operations/steps)
			for size := len(*get(best)) / 2; size >= 1; size /= 2 {
				for startIdx := 0; startIdx+size <= len(*get(best)) && runs < budget; {
					cand := cloneTape(best)
					cs := *get(cand)
					*get(cand) = append(append([]uint32(nil), cs[:startIdx]...), cs[startIdx+size:]...)
					if o, ok := test(cand); ok && tapeLen(o.Tape) < tapeLen(best) {
						best = cloneTape(o.Tape)
						changed = true
					} else {
						startIdx += size
					}
				}
			}
			// zero chunks, large to small
			n := len(*get(best))
			for size := n; size >= 1; size /= 2 {
				for startIdx := 0; startIdx < len(*get(best)); startIdx += size {
					cand := cloneTape(best)
					cs := *get(cand)
					any := false
					for j := startIdx; j < startIdx+size && j < len(cs); j++ {
						if cs[j] != 0 {
							cs[j] = 0
							any = true
						}
					}
					if !any {
						continue
					}
					if o, ok := test(cand); ok {
						best = cloneTape(o.Tape)
						changed = true
					}
					if runs >= budget {
						break
					}
				}
				if size == 1 {
					break
				}
			}
			// lower remaining values
			for j := 0; j < len(*get(best)) && runs < budget; j++ {
				v := (*get(best))[j]
				if v <= 1 {
					continue
				}
				for _, nv := range []uint32{1, v / 2, v - 1} {
					if nv >= v {
						continue
					}
					cand := cloneTape(best)
					(*get(cand))[j] = nv
					if o, ok := test(cand); ok {
						best = cloneTape(o.Tape)
						changed = true
						break
					}
				}
			}
		}
	}
	// final exact run for the record
	o := core.RunOne(sc, r.Seed, core.RunOpts{Only: core.PropOf(r.Oracle), Thorough: r.Thorough, WantDesc: true, KeepLog: 200, Replay: best})
	if o.Violation == nil || o.Violation.Oracle != r.Oracle {
		fmt.Fprintln(os.Stderr, "simworker: shrink: minimised tape does not reproduce strictly; keeping the original")
		writeJSON(out, r)
		return
	}
	nr := mkRec(sc, o, r.Thorough)
	nr.Minimised = true
	nr.ShrinkRuns = runs
	nr.OrigLen = orig
	writeJSON(out, nr)
}

func tapeLen(t *simrt.Tape) int { return len(t.Plan) + len(t.Fault) + len(t.Sched) }

func cloneTape(t *simrt.Tape) *simrt.Tape {
	return &simrt.Tape{Plan: append([]uint32(nil), t.Plan...), Fault: append([]uint32(nil), t.Fault...), Sched: append([]uint32(nil), t.Sched...)}
}
