package main

import (
	"fmt"
	"os"
	"path/filepath"
	"runtime"
	"sort"
	"strings"
)

// raceReport is one filtered race-detector report.
type raceReport struct {
	Sig  string // signature: the innermost library frames of the two accesses
	Text string
}

type raceScanner struct {
	path      string // GORACE log_path; the runtime appends ".<pid>"
	off       int64
	libPrefix string
	goroot    string
	Total     int // reports seen (before filtering)
	Kept      int
}

func newRaceScanner(path, libPrefix string) *raceScanner {
	return &raceScanner{path: fmt.Sprintf("%s.%d", path, os.Getpid()), libPrefix: strings.TrimSuffix(libPrefix, "/") + "/", goroot: runtime.GOROOT()}
}

// frameOf returns the innermost frame of an access section that is neither
// standard library / runtime nor the simulation runtime's shims.
func (r *raceScanner) frameOf(section []string) string {
	for _, l := range section {
		if !strings.HasPrefix(l, "      ") {
			continue
		}
		loc := strings.TrimSpace(l)
		if i := strings.Index(loc, " +0x"); i > 0 {
			loc = loc[:i]
		}
		if strings.HasPrefix(loc, r.goroot) || strings.Contains(loc, "/src/runtime/") {
			continue
		}
		// an access whose innermost frame is the simulation runtime itself
		// (scheduler bookkeeping) is not an access of the program
		return loc
	}
	return ""
}

func (r *raceScanner) isLib(loc string) bool {
	if !strings.HasPrefix(loc, r.libPrefix) {
		return false
	}
	file := loc
	if i := strings.LastIndex(file, ":"); i > 0 {
		file = file[:i]
	}
	return !strings.HasSuffix(file, "_test.go")
}

// scan reads the reports written since the last call and returns those in
// which at least one access's innermost non-runtime frame is library code.
func (r *raceScanner) scan() []raceReport {
	f, err := os.Open(r.path)
	if err != nil {
		return nil
	}
	defer f.Close()
	st, err := f.Stat()
	if err != nil || st.Size() <= r.off {
		return nil
	}
	buf := make([]byte, st.Size()-r.off)
	if _, err := f.ReadAt(buf, r.off); err != nil {
		return nil
	}
	r.off = st.Size()
	var out []raceReport
	for _, blk := range strings.Split(string(buf), "==================") {
		if !strings.Contains(blk, "WARNING: DATA RACE") {
			continue
		}
		r.Total++
		lines := strings.Split(blk, "\n")
		var sections [][]string
		var cur []string
		for _, l := range lines {
			switch {
			case strings.HasPrefix(l, "Read at"), strings.HasPrefix(l, "Write at"), strings.HasPrefix(l, "Previous read at"), strings.HasPrefix(l, "Previous write at"),
				strings.HasPrefix(l, "Atomic"), strings.HasPrefix(l, "Previous atomic"):
				if cur != nil {
					sections = append(sections, cur)
				}
				cur = []string{l}
			case strings.HasPrefix(l, "Goroutine "):
				if cur != nil {
					sections = append(sections, cur)
				}
				cur = nil
			default:
				if cur != nil {
					cur = append(cur, l)
				}
			}
		}
		if cur != nil {
			sections = append(sections, cur)
		}
		var sig []string
		lib := false
		for _, s := range sections {
			loc := r.frameOf(s)
			if r.isLib(loc) {
				lib = true
				rel := strings.TrimPrefix(loc, r.libPrefix)
				sig = append(sig, rel)
			} else {
				sig = append(sig, "client:"+filepath.Base(loc))
			}
		}
		if !lib {
			continue
		}
		sort.Strings(sig)
		r.Kept++
		txt := strings.TrimSpace(blk)
		if len(txt) > 6000 {
			txt = txt[:6000] + "\n..."
		}
		out = append(out, raceReport{Sig: strings.Join(sig, "|"), Text: txt})
	}
	return out
}
