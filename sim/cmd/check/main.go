// check is the driver behind every MANIFEST command: it instruments the
// current /repo working tree into a scratch copy, builds the simulation worker
// against it, runs seeded simulations on all cores, minimises and replays any
// violation, applies the known-findings file, writes the evidence file and
// sets the exit code (0 held, 1 violation, 2 infrastructure trouble).
package main

import (
	"context"
	"encoding/json"
	"fmt"
	"os"
	"os/exec"
	"path/filepath"
	"runtime"
	"sort"
	"strconv"
	"strings"
	"sync"
	"time"
)

// verifDir is /verif; VERIF_DIR overrides it so that a snapshot of the
// framework (vp run) builds and runs from its own copy.
var verifDir = func() string {
	if v := os.Getenv("VERIF_DIR"); v != "" {
		return v
	}
	return "/verif"
}()

var simDir = verifDir + "/sim"

// repoDir is /repo; VERIF_REPO overrides it for the framework's own
// sensitivity tests against scratch copies (never used by MANIFEST commands).
var repoDir = func() string {
	if v := os.Getenv("VERIF_REPO"); v != "" {
		return v
	}
	return "/repo"
}()

type propSpec struct {
	Scenarios []string
	Race      bool // C13: run with the race detector
	Rule      string
}

var props = map[string]propSpec{
	"C01": {Scenarios: []string{"csync"}},
	"C02": {Scenarios: []string{"csync"}},
	"C03": {Scenarios: []string{"bcast"}},
	"C20": {Scenarios: []string{"io"}},
	// C13: every scenario, built with the race detector and the spin parker
	"C13": {Race: true, Scenarios: []string{"refcount", "routine", "keyedrun", "csync", "ccall", "promise", "once", "conc", "ccont", "bcast", "stack", "io", "keyedset", "routine14", "refcount", "routine"}},
	"C08": {Scenarios: []string{"refcount"}},
	"C09": {Scenarios: []string{"refcount"}},
	"C10": {Scenarios: []string{"refcount"}},
	"C06": {Scenarios: []string{"keyedset", "keyedrun"}},
	"C07": {Scenarios: []string{"keyedrun", "keyedset"}},
	"C04": {Scenarios: []string{"routine"}},
	"C05": {Scenarios: []string{"routine"}},
	"C14": {Scenarios: []string{"routine14", "routine"}},
	"C12": {Scenarios: []string{"stack"}},
	"C18": {Scenarios: []string{"conc"}},
	"C16": {Scenarios: []string{"once"}},
	"C17": {Scenarios: []string{"ccall"}},
	"C11": {Scenarios: []string{"promise"}},
	"C15": {Scenarios: []string{"ccont"}},
}

type tape struct {
	Plan  []uint32 `json:"plan"`
	Fault []uint32 `json:"fault"`
	Sched []uint32 `json:"sched"`
}

type violationRec struct {
	Scenario   string   `json:"scenario"`
	Property   string   `json:"property"`
	Oracle     string   `json:"oracle"`
	Msg        string   `json:"msg"`
	Step       int      `json:"step"`
	Seed       uint64   `json:"seed"`
	Thorough   bool     `json:"thorough"`
	Hash       string   `json:"event_hash"`
	Tape       *tape    `json:"tape"`
	Desc       []string `json:"plan,omitempty"`
	LogTail    []string `json:"last_events,omitempty"`
	Minimised  bool     `json:"minimised"`
	ShrinkRuns int      `json:"shrink_runs,omitempty"`
	OrigLen    [3]int   `json:"original_tape_len,omitempty"`
}

type batchResult struct {
	Scenario    string         `json:"scenario"`
	Runs        int            `json:"runs"`
	Steps       int64          `json:"steps"`
	SimNs       int64          `json:"sim_ns"`
	Truncated   int            `json:"truncated"`
	NonTrivial  int            `json:"nontrivial_runs"`
	Counts      map[string]int `json:"counts"`
	RunsWith    map[string]int `json:"runs_with"`
	Strategies  map[string]int `json:"strategies"`
	NTHashes    []uint64       `json:"nt_hashes"`
	HashCapHit  bool           `json:"hash_cap_hit"`
	Violations  []violationRec `json:"violations"`
	ViolCount   map[string]int `json:"violation_counts"`
	Samples     [][]string     `json:"samples"`
	DetChecks   int            `json:"determinism_double_runs"`
	DetFail     []string       `json:"determinism_failures"`
	WallS       float64        `json:"wall_s"`
	Parker      string         `json:"parker"`
	RaceReports int            `json:"race_reports_total"`
	RaceKept    int            `json:"race_reports_library"`
}

type finding struct {
	Property    string `json:"property"`
	Oracle      string `json:"oracle"` // exact oracle id (signature of the failing history class)
	Status      string `json:"status"` // "finding" or "fixed"
	Commit      string `json:"commit,omitempty"`
	Description string `json:"description"`
}

func infra(format string, a ...any) {
	fmt.Fprintf(os.Stderr, "check: INFRASTRUCTURE: "+format+"\n", a...)
	cleanup()
	os.Exit(2)
}

var scratch string

func cleanup() {
	if scratch != "" && os.Getenv("VERIF_KEEP_SCRATCH") == "" {
		os.RemoveAll(scratch)
	}
}

func goEnv() []string {
	env := os.Environ()
	env = append(env, "GOFLAGS=-mod=mod", "GOPROXY=off", "GOSUMDB=off", "GOTOOLCHAIN=local", "CGO_ENABLED=1")
	return env
}

func runCmd(dir string, env []string, name string, args ...string) (string, error) {
	cmd := exec.Command(name, args...)
	cmd.Dir = dir
	cmd.Env = env
	out, err := cmd.CombinedOutput()
	return string(out), err
}

// prepare instruments /repo and builds the worker(s).
func prepare(race bool) (worker string) {
	var err error
	base := os.Getenv("VERIF_SCRATCH")
	if base == "" {
		base = "/var/tmp"
	}
	scratch, err = os.MkdirTemp(base, "verif-scratch-")
	if err != nil {
		infra("mkdtemp: %v", err)
	}
	env := goEnv()
	if out, err := runCmd(simDir, env, "go", "build", "-o", filepath.Join(scratch, "simgen"), "./simgen"); err != nil {
		infra("building simgen failed: %v\n%s", err, out)
	}
	lib := filepath.Join(scratch, "lib")
	if out, err := runCmd(simDir, env, filepath.Join(scratch, "simgen"), repoDir, lib, simDir); err != nil {
		infra("instrumenting %s failed (does the tree compile?): %v\n%s", repoDir, err, out)
	}
	gm, err := os.ReadFile(filepath.Join(simDir, "go.mod"))
	if err != nil {
		infra("%v", err)
	}
	mod := string(gm) + "\nrequire github.com/aperturerobotics/util v0.0.0\nreplace github.com/aperturerobotics/util => " + lib + "\n"
	os.WriteFile(filepath.Join(scratch, "go.mod"), []byte(mod), 0o644)
	s1, _ := os.ReadFile(filepath.Join(repoDir, "go.sum"))
	s2, _ := os.ReadFile(filepath.Join(simDir, "go.sum"))
	os.WriteFile(filepath.Join(scratch, "go.sum"), append(append(s1, '\n'), s2...), 0o644)
	worker = filepath.Join(scratch, "simworker")
	args := []string{"build", "-modfile=" + filepath.Join(scratch, "go.mod"), "-o", worker}
	if race {
		args = append(args, "-race", "-tags", "verifsim_spin")
	}
	args = append(args, "./cmd/simworker")
	if out, err := runCmd(simDir, env, "go", args...); err != nil {
		infra("building the simulation worker against the instrumented tree failed: %v\n%s", err, out)
	}
	return worker
}

func loadFindings() []finding {
	b, err := os.ReadFile(filepath.Join(verifDir, "known_findings.json"))
	if err != nil {
		return nil
	}
	var f struct {
		Findings []finding `json:"findings"`
	}
	if err := json.Unmarshal(b, &f); err != nil {
		infra("known_findings.json: %v", err)
	}
	return f.Findings
}

func main() {
	if len(os.Args) < 2 {
		fmt.Fprintln(os.Stderr, "usage: check <property-id> [quick|thorough] | check replay <file>")
		os.Exit(2)
	}
	if os.Args[1] == "selftest" {
		selftest(os.Args[2:])
		return
	}
	if os.Args[1] == "replay" {
		if len(os.Args) < 3 {
			infra("usage: check replay <file>")
		}
		doReplay(os.Args[2])
		return
	}
	prop := os.Args[1]
	tier := os.Getenv("VERIF_TIER")
	if len(os.Args) > 2 {
		tier = os.Args[2]
	}
	if tier != "thorough" {
		tier = "quick"
	}
	spec, ok := props[prop]
	if !ok {
		infra("unknown property %s", prop)
	}
	seed := uint64(1)
	if v := os.Getenv("VERIF_SEED"); v != "" {
		if n, err := strconv.ParseInt(v, 10, 64); err == nil {
			seed = uint64(n)
		}
	}
	secs := 10.0
	if spec.Race {
		secs = 20
	}
	if tier == "thorough" {
		secs = 480
	}
	if v := os.Getenv("VERIF_SECS"); v != "" {
		if f, err := strconv.ParseFloat(v, 64); err == nil {
			secs = f
		}
	}
	start := time.Now()
	worker := prepare(spec.Race)
	buildS := time.Since(start).Seconds()

	nw := runtime.NumCPU()
	if nw > 16 {
		nw = 16
	}
	if v := os.Getenv("VERIF_WORKERS"); v != "" {
		if n, err := strconv.Atoi(v); err == nil && n > 0 {
			nw = n
		}
	}
	// split workers over scenarios
	type job struct {
		scenario string
		idx      int
	}
	var jobs []job
	for i := 0; i < nw; i++ {
		jobs = append(jobs, job{spec.Scenarios[i%len(spec.Scenarios)], i})
	}
	results := make([]*batchResult, len(jobs))
	errs := make([]string, len(jobs))
	var wg sync.WaitGroup
	for i, j := range jobs {
		wg.Add(1)
		go func(i int, j job) {
			defer wg.Done()
			out := filepath.Join(scratch, fmt.Sprintf("w%d.json", i))
			args := []string{"-scenario", j.scenario, "-seed0", fmt.Sprint(seed*1000003 + uint64(i)*7919), "-count", "2000000000", "-secs", fmt.Sprint(secs), "-only", prop, "-out", out}
			if tier == "thorough" {
				args = append(args, "-thorough")
			}
			// second line of defence behind the worker's own watchdog
			wctx, wcancel := context.WithTimeout(context.Background(), time.Duration(secs+300)*time.Second)
			defer wcancel()
			cmd := exec.CommandContext(wctx, worker, args...)
			cmd.Env = append(os.Environ(), "GOMAXPROCS=2")
			if spec.Race {
				rl := filepath.Join(scratch, fmt.Sprintf("race-w%d", i))
				cmd.Args = append(cmd.Args, "-racelog", rl, "-libprefix", repoDir)
				cmd.Env = append(os.Environ(), "GOMAXPROCS=1", "GORACE=halt_on_error=0 exitcode=0 log_path="+rl)
			}
			o, err := cmd.CombinedOutput()
			if err != nil {
				errs[i] = fmt.Sprintf("worker %d (%s): %v\n%s", i, j.scenario, err, tailStr(string(o), 4000))
				return
			}
			b, err := os.ReadFile(out)
			if err != nil {
				errs[i] = err.Error()
				return
			}
			var r batchResult
			if err := json.Unmarshal(b, &r); err != nil {
				errs[i] = err.Error()
				return
			}
			results[i] = &r
		}(i, j)
	}
	wg.Wait()
	for _, e := range errs {
		if e != "" {
			infra("%s", e)
		}
	}

	// aggregate
	agg := &batchResult{Counts: map[string]int{}, RunsWith: map[string]int{}, Strategies: map[string]int{}, ViolCount: map[string]int{}}
	hashes := map[uint64]struct{}{}
	perScenario := map[string]int{}
	for _, r := range results {
		agg.Runs += r.Runs
		agg.Steps += r.Steps
		agg.SimNs += r.SimNs
		agg.Truncated += r.Truncated
		agg.NonTrivial += r.NonTrivial
		agg.DetChecks += r.DetChecks
		agg.DetFail = append(agg.DetFail, r.DetFail...)
		agg.HashCapHit = agg.HashCapHit || r.HashCapHit
		perScenario[r.Scenario] += r.Runs
		for k, v := range r.Counts {
			agg.Counts[k] += v
		}
		for k, v := range r.RunsWith {
			agg.RunsWith[k] += v
		}
		for k, v := range r.Strategies {
			agg.Strategies[k] += v
		}
		for k, v := range r.ViolCount {
			agg.ViolCount[k] += v
		}
		for _, h := range r.NTHashes {
			hashes[h] = struct{}{}
		}
		agg.Violations = append(agg.Violations, r.Violations...)
		if len(agg.Samples) < 6 {
			agg.Samples = append(agg.Samples, r.Samples...)
		}
		agg.Parker = r.Parker
		agg.RaceReports += r.RaceReports
		agg.RaceKept += r.RaceKept
	}
	if len(agg.DetFail) > 0 {
		infra("nondeterminism detected (same seed, different event log): %v", agg.DetFail)
	}

	// violations: one representative per oracle id, minimised and replayed in a fresh process
	findings := loadFindings()
	byOracle := map[string]violationRec{}
	var oracles []string
	for _, v := range agg.Violations {
		if _, ok := byOracle[v.Oracle]; !ok {
			byOracle[v.Oracle] = v
			oracles = append(oracles, v.Oracle)
		}
	}
	sort.Strings(oracles)
	exit := 0
	var lines []string
	var known []string
	var unconfirmed []string
	nviol := 0
	os.MkdirAll(filepath.Join(verifDir, "replays"), 0o755)
	for _, or := range oracles {
		v := byOracle[or]
		if strings.HasPrefix(or, "HARNESS.") {
			infra("harness self-check failed: %s: %s (seed %d)", or, v.Msg, v.Seed)
		}
		in := filepath.Join(scratch, "viol.json")
		writeJSON(in, v)
		min := filepath.Join(scratch, "min.json")
		env := os.Environ()
		replayArgs := []string{}
		if spec.Race {
			// the race detector reports each pair of stacks once per process, so a
			// failing tape cannot be re-tested in-process: race violations are
			// replayed (fresh process) but not minimised
			min = in
			rl := filepath.Join(scratch, "race-replay")
			env = append(env, "GOMAXPROCS=1", "GORACE=halt_on_error=0 exitcode=0 log_path="+rl)
			replayArgs = []string{"-racelog", rl, "-libprefix", repoDir}
		} else if out, err := runCmd(scratch, os.Environ(), worker, "-shrink", in, "-out", min); err != nil {
			infra("minimising %s failed: %v\n%s", or, err, out)
		}
		name := sanitize(or)
		if len(name) > 90 {
			name = name[:90]
		}
		rp := filepath.Join(verifDir, "replays", fmt.Sprintf("%s-%s-%d.json", prop, name, v.Seed))
		b, _ := os.ReadFile(min)
		os.WriteFile(rp, b, 0o644)
		out, err := runCmd(scratch, env, worker, append([]string{"-replay", rp}, replayArgs...)...)
		if (err != nil || !strings.HasPrefix(out, "REPRODUCED ")) && spec.Race {
			// try the other recorded runs with the same pair of frames
			for _, alt := range agg.Violations {
				if alt.Oracle != or || alt.Seed == v.Seed {
					continue
				}
				writeJSON(in, alt)
				rp2 := filepath.Join(verifDir, "replays", fmt.Sprintf("%s-%s-%d.json", prop, name, alt.Seed))
				b, _ := os.ReadFile(in)
				os.WriteFile(rp2, b, 0o644)
				out, err = runCmd(scratch, env, worker, append([]string{"-replay", rp2}, replayArgs...)...)
				if err == nil && strings.HasPrefix(out, "REPRODUCED ") {
					os.Remove(rp)
					rp, v = rp2, alt
					break
				}
				os.Remove(rp2)
			}
			if err != nil || !strings.HasPrefix(out, "REPRODUCED ") {
				// the report is real (both stacks are in it) but the detector did not
				// re-detect this pair on replay: not claimed as a violation
				os.Remove(rp)
				unconfirmed = append(unconfirmed, fmt.Sprintf("UNCONFIRMED-RACE-REPORT property=%s oracle=%s seed=%d (reported once in the batch, not re-detected in 40 replays)", prop, or, v.Seed))
				continue
			}
		}
		if err != nil || !strings.HasPrefix(out, "REPRODUCED ") {
			infra("replay of the minimised violation %s did not reproduce exactly in a fresh process: %v\n%s", or, err, tailStr(out, 2000))
		}
		matched := false
		for _, f := range findings {
			if f.Status == "finding" && f.Property == prop && f.Oracle == or {
				matched = true
				known = append(known, fmt.Sprintf("KNOWN-FINDING: property=%s oracle=%s %s (seen in %d runs; replay=%s)", prop, or, f.Description, agg.ViolCount[or], rp))
			}
		}
		if !matched {
			nviol++
			exit = 1
			lines = append(lines, fmt.Sprintf("VIOLATION property=%s replay=%s", prop, rp))
			lines = append(lines, fmt.Sprintf("  oracle=%s runs=%d seed=%d: %s", or, agg.ViolCount[or], v.Seed, firstLine(v.Msg)))
		}
	}
	wall := time.Since(start).Seconds()

	// evidence
	faults := map[string]any{}
	probes := map[string]any{}
	var zero []string
	for k, v := range agg.Counts {
		e := map[string]int{"firings": v, "runs": agg.RunsWith[k]}
		if strings.HasPrefix(k, "fault:") {
			faults[strings.TrimPrefix(k, "fault:")] = e
		} else if strings.HasPrefix(k, "probe:") {
			probes[strings.TrimPrefix(k, "probe:")] = e
		}
	}
	_ = zero
	samples := []any{}
	for _, s := range agg.Samples {
		samples = append(samples, s)
		if len(samples) >= 4 {
			break
		}
	}
	if len(samples) == 0 {
		samples = append(samples, "no sample recorded")
	}
	ruleTxt := spec.Rule
	if ruleTxt == "" {
		ruleTxt = "seeded simulated runs of scenario(s) " + strings.Join(spec.Scenarios, ",") + "; one run = one generated plan (objects, actors, operation scripts, callback behaviours) + one fault sequence + one schedule, all drawn from VERIF_SEED; non-trivial as defined by the scenario (see DESIGN.md §8); distinct = distinct event-log hash over (task, site) of every scheduler step plus every plan/fault choice"
	}
	ev := map[string]any{
		"property_id": prop,
		"tier":        tier,
		"seed":        int64(seed),
		"level":       "exploration",
		"coverage": map[string]any{
			"evaluations":             agg.Runs,
			"distinct_nontrivial":     len(hashes),
			"distinct_count_capped":   agg.HashCapHit,
			"nontrivial_runs":         agg.NonTrivial,
			"rule":                    ruleTxt,
			"samples":                 samples,
			"exhaustive":              false,
			"scheduler_steps":         agg.Steps,
			"simulated_time_s":        float64(agg.SimNs) / 1e9,
			"runs_per_hour":           float64(agg.Runs) / (secs / 3600),
			"seeds_per_hour":          float64(agg.Runs) / (secs / 3600),
			"runs_per_scenario":       perScenario,
			"strategies":              agg.Strategies,
			"faults_injected":         faults,
			"reach_probes":            probes,
			"truncated_runs":          agg.Truncated,
			"determinism_double_runs": agg.DetChecks,
			"violations_by_oracle":    agg.ViolCount,
			"known_findings_seen":     known,
			"race_reports_total":      agg.RaceReports,
			"race_reports_in_library": agg.RaceKept,
			"workers":                 nw,
			"parker":                  agg.Parker,
			"build_s":                 buildS,
			"real_vs_stub": map[string]string{
				"library packages (broadcast csync routine keyed refcount ccontainer promise memo ccall conc cqueue linkedlist iocloser iosizer ioproxy ioseek unique backoff)": "real code of the current /repo working tree, mechanically instrumented (simgen)",
				"context, cenkalti/backoff, logrus, protobuf-go-lite":      "real, unmodified",
				"sync.Mutex/RWMutex/Once/WaitGroup":                        "stub: cooperative versions over a real mutex",
				"sync/atomic":                                              "real operation behind a scheduling point",
				"goroutine scheduling, select choice, map iteration order": "stub: seeded one-token scheduler",
				"time (AfterFunc, Timer, After, Now, Sleep)":               "stub: virtual clock",
				"user callbacks (routines, resolvers, predicates, jobs, streams), contexts' cancellation times": "harness-scripted from the seed (fault-injection surface)",
			},
		},
		"assumptions": []string{
			"sampling, not enumeration: bounded actors/scripts/steps per run",
			"interleavings explored at synchronisation-operation granularity under sequential consistency",
			"the code that runs is the instrumented source of the current /repo tree (transformation validated by the repository's own tests in passthrough mode)",
		},
		"wall_s":     wall,
		"violations": nviol,
	}
	os.MkdirAll(filepath.Join(verifDir, "evidence"), 0o755)
	writeJSON(filepath.Join(verifDir, "evidence", prop+".json"), ev)

	for _, l := range unconfirmed {
		fmt.Println(l)
	}
	if len(unconfirmed) > 0 && nviol == 0 && len(known) == 0 {
		infra("race reports were produced but none could be re-detected on replay: %v", unconfirmed)
	}
	for _, l := range known {
		fmt.Println(l)
	}
	for _, l := range lines {
		fmt.Println(l)
	}
	fmt.Printf("check %s tier=%s seed=%d: %d runs, %d distinct non-trivial, %d steps, %.1fs (build %.1fs), violations=%d known=%d\n", prop, tier, seed, agg.Runs, len(hashes), agg.Steps, wall, buildS, nviol, len(known))
	cleanup()
	os.Exit(exit)
}

func doReplay(path string) {
	b, err := os.ReadFile(path)
	if err != nil {
		infra("%v", err)
	}
	var v violationRec
	if err := json.Unmarshal(b, &v); err != nil {
		infra("bad replay file: %v", err)
	}
	spec := props[v.Property]
	worker := prepare(spec.Race)
	cmd := exec.Command(worker, "-replay", path)
	if spec.Race {
		rl := filepath.Join(scratch, "race-replay")
		cmd.Args = append(cmd.Args, "-racelog", rl, "-libprefix", repoDir)
		cmd.Env = append(os.Environ(), "GOMAXPROCS=1", "GORACE=halt_on_error=0 exitcode=0 log_path="+rl)
	}
	cmd.Stdout = os.Stdout
	cmd.Stderr = os.Stderr
	err = cmd.Run()
	cleanup()
	if err != nil {
		if ee, ok := err.(*exec.ExitError); ok {
			os.Exit(ee.ExitCode())
		}
		os.Exit(2)
	}
	// reproduced: the violation is real on this tree
	fmt.Printf("VIOLATION property=%s replay=%s\n", v.Property, path)
	os.Exit(1)
}

func writeJSON(path string, v any) {
	b, err := json.MarshalIndent(v, "", " ")
	if err != nil {
		infra("marshal: %v", err)
	}
	if err := os.WriteFile(path, b, 0o644); err != nil {
		infra("%v", err)
	}
}

func sanitize(s string) string {
	return strings.Map(func(r rune) rune {
		if r >= 'a' && r <= 'z' || r >= 'A' && r <= 'Z' || r >= '0' && r <= '9' || r == '-' || r == '.' {
			return r
		}
		return '_'
	}, s)
}

func firstLine(s string) string {
	if i := strings.IndexByte(s, '\n'); i >= 0 {
		return s[:i]
	}
	return s
}

func tailStr(s string, n int) string {
	if len(s) > n {
		return s[len(s)-n:]
	}
	return s
}

// selftest: checks of the machinery itself.
//
//	passthrough  the repository's own tests must pass against the instrumented copy (runtime in passthrough mode)
//	determinism  every scenario: the same seeds give the same event hashes across processes and GOMAXPROCS 1/4/16
func selftest(args []string) {
	what := "all"
	if len(args) > 0 {
		what = args[0]
	}
	worker := prepare(false)
	ok := true
	if what == "all" || what == "passthrough" {
		out, err := runCmd(filepath.Join(scratch, "lib"), goEnv(), "go", "test", "-count=1", "-vet=off", "./...")
		npass := strings.Count(out, "\nok ") + strings.Count(out, "ok  \t")
		if err != nil {
			fmt.Println("SELFTEST passthrough: FAILED\n" + tailStr(out, 4000))
			ok = false
		} else {
			fmt.Printf("SELFTEST passthrough: the repository's tests pass against the instrumented copy (%d packages ok)\n", npass)
		}
	}
	if what == "all" || what == "determinism" {
		out, err := runCmd(scratch, os.Environ(), worker, "-list")
		if err != nil {
			infra("%v", err)
		}
		nseeds := "40"
		for _, sc := range strings.Fields(out) {
			var ref string
			bad := false
			nruns := 0
			for _, procs := range []string{"1", "4", "16", "1", "4", "16"} {
				cmd := exec.Command(worker, "-scenario", sc, "-seed0", "4242", "-count", nseeds, "-dumphashes", "-out", filepath.Join(scratch, "det.json"), "-stop-after", "1000000")
				cmd.Env = append(os.Environ(), "GOMAXPROCS="+procs)
				o, err := cmd.Output()
				if err != nil {
					infra("determinism self-test: worker failed: %v", err)
				}
				nruns++
				if ref == "" {
					ref = string(o)
				} else if string(o) != ref {
					bad = true
				}
			}
			if bad {
				fmt.Printf("SELFTEST determinism: scenario %s DIVERGED across processes/GOMAXPROCS\n", sc)
				ok = false
			} else {
				fmt.Printf("SELFTEST determinism: scenario %s: %s seeds x %d processes (GOMAXPROCS 1,4,16 twice) identical event hashes\n", sc, nseeds, nruns)
			}
		}
	}
	cleanup()
	if !ok {
		os.Exit(2)
	}
}
