#!/usr/bin/env python3
"""Writes /verif/seeded/README.md from the meta.json files."""
import json, glob, os
rows=[]
for f in sorted(glob.glob('/verif/seeded/*/meta.json')):
    d=json.load(open(f)); name=d['name']
    for p,c in d['checks'].items():
        o=c['oracles'][0] if c['oracles'] else ''
        o=o.replace('oracle=','').split(' runs=')[0]
        rows.append((name,p,c['verdict'],o,'yes' if d.get('existing_tests_pass_with_change') else 'NO','yes' if d.get('demo_fails_with_change') else 'NO','yes' if d.get('demo_passes_without_change') else 'NO'))
with open('/verif/seeded/README.md','w') as f:
    f.write('# Seeded property-breaking changes (written by independent sub-agents from the property text only)\n\n')
    f.write('Each directory holds patch.diff, the demonstration, the author\'s notes.md and meta.json (what was confirmed and what the checks reported).\n')
    f.write('Confirmation = scratch worktree: patch applies, module builds, the repository\'s own tests pass with the change, the demonstration fails with it and passes without it. Check = patch applied to /repo, `bin/check <property> quick`, patch undone.\n\n')
    f.write('| change | property | quick check | first oracle that fired | repo tests pass with change | demo fails with change | demo passes without |\n|---|---|---|---|---|---|---|\n')
    for r in rows: f.write('| '+' | '.join(r)+' |\n')
    f.write('\n%d changes, %d caught by the quick check of their property.\n'%(len(rows),sum(1 for r in rows if r[2]=='caught')))
print(open('/verif/seeded/README.md').read()[-3500:])
