#!/bin/sh
cd /verif
run() { # prop dir pkg name [race]
  if [ "$5" = race ]; then SEED_RACE=1 python3 tools/seedverify.py $1 $2 $3 $4 > /var/tmp/r11-$4.log 2>&1; else python3 tools/seedverify.py $1 $2 $3 $4 > /var/tmp/r11-$4.log 2>&1; fi
  python3 - "$4" <<'PY'
import json,sys
m=json.load(open('/verif/seeded/'+sys.argv[1]+'/meta.json'))
print(sys.argv[1], 'applies',m['patch_applies'],'builds',m['builds'],'tests',m['existing_tests_pass_with_change'],'demoFail',m['demo_fails_with_change'],'demoPass',m['demo_passes_without_change'], {k:(v['verdict'],[o.split()[0] for o in v['oracles']][:3]) for k,v in m['checks'].items()}, flush=True)
PY
}
run C01 /tmp/seed11-N1/_seed/1 csync C01-10-free-uint16-reader-count-wraps
run C02 /tmp/seed11-N1/_seed/2 csync C02-13-free-cancelled-waiter-deregisters-async
run C03 /tmp/seed11-N1/_seed/3 broadcast C03-11-free-wait-tryholdlock-first-check
run C16 /tmp/seed11-N1/_seed/4 promise C16-11-free-setresult-before-clearing-slot
run C13 /tmp/seed11-N1/_seed/5 broadcast C13-34-free-cached-method-values race
run C04 /tmp/seed11-N2/_seed/1 routine C04-11-free-cancelled-pending-instance-forwards-exit
run C05 /tmp/seed11-N2/_seed/2 routine C05-11-free-same-context-by-done-channel
run C14 /tmp/seed11-N2/_seed/3 routine C14-13-free-reset-only-if-backoff-used-flag
run C06 /tmp/seed11-N2/_seed/4 keyed C06-13-free-nil-routine-key-ignores-delay
run C07 /tmp/seed11-N2/_seed/5 keyed C07-13-free-withretry-shared-backoff
run C13 /tmp/seed11-N2/_seed/6 routine C13-35-free-reset-after-unlock race
run C12 /tmp/seed11-N4/_seed/1 cqueue C12-11-free-pop-swap-nil-on-last
run C17 /tmp/seed11-N4/_seed/2 ccall C17-11-free-start-loop-stops-on-cancel
run C18 /tmp/seed11-N4/_seed/3 conc C18-12-free-worker-takes-private-batch
run C20 /tmp/seed11-N4/_seed/4 unique C20-15-free-setvalues-collapses-duplicates
run C13 /tmp/seed11-N4/_seed/5 iocloser C13-36-free-close-unlocked-fastpath race
echo ROUND11-DONE
