#!/bin/sh
# reverify <prop> <name> <pkg> [race]
cd /verif
rm -rf /var/tmp/rv-$2; cp -r seeded/$2 /var/tmp/rv-$2
python3 - "$2" <<'PY'
import json,sys
m=json.load(open('/verif/seeded/'+sys.argv[1]+'/meta.json')); json.dump(m.get('history'), open('/var/tmp/rv-'+sys.argv[1]+'/.hist','w'))
PY
if [ "$4" = race ]; then SEED_RACE=1 python3 tools/seedverify.py $1 /var/tmp/rv-$2 $3 $2 > /var/tmp/r4-$2.log 2>&1; else python3 tools/seedverify.py $1 /var/tmp/rv-$2 $3 $2 > /var/tmp/r4-$2.log 2>&1; fi
python3 - "$2" <<'PY'
import json,sys
n=sys.argv[1]
m=json.load(open('/verif/seeded/'+n+'/meta.json'))
h=json.load(open('/var/tmp/rv-'+n+'/.hist'))
if h: m['history']=h; json.dump(m,open('/verif/seeded/'+n+'/meta.json','w'),indent=1)
print(n, 'applies',m['patch_applies'],'builds',m['builds'],'tests',m['existing_tests_pass_with_change'],'demoFail',m['demo_fails_with_change'],'demoPass',m['demo_passes_without_change'], {k:(v['verdict'],[o.split()[0] for o in v['oracles']][:3]) for k,v in m['checks'].items()}, flush=True)
PY
rm -rf /var/tmp/rv-$2
