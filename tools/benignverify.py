#!/usr/bin/env python3
"""Apply each behaviour-preserving patch under /verif/benign/<name>/ to /repo, run the quick checks of
every property anchored in the touched packages (and C13), expect silence, undo the patch.
usage: benignverify.py [name-substring] ; writes benign/<name>/result.json"""
import json, os, subprocess, sys, glob
V = os.path.dirname(os.path.dirname(os.path.abspath(__file__)))
PK = {'csync': ['C01', 'C02'], 'broadcast': ['C01', 'C02', 'C03', 'C15', 'C11', 'C08', 'C18', 'C04'],
      'memo': ['C16'], 'promise': ['C11', 'C16', 'C10'], 'routine': ['C04', 'C05', 'C14'],
      'keyed': ['C06', 'C07'], 'backoff': ['C14', 'C05', 'C07'], 'refcount': ['C08', 'C09', 'C10'],
      'ccontainer': ['C15', 'C08', 'C10'], 'cqueue': ['C12'], 'linkedlist': ['C12', 'C18'], 'ccall': ['C17'],
      'conc': ['C18'], 'ioseek': ['C20'], 'iosizer': ['C20'], 'iocloser': ['C20'], 'ioproxy': ['C20'], 'unique': ['C20']}
pat = sys.argv[1] if len(sys.argv) > 1 else ''
bad = 0
for d in sorted(glob.glob(V + '/benign/*/')):
    name = os.path.basename(d.rstrip('/'))
    if pat not in name:
        continue
    patch = d + 'patch.diff'
    pkgs = sorted({l.split('/')[1] for l in open(patch) if l.startswith('+++ b/')})
    props = []
    for p in pkgs:
        for c in PK.get(p, []):
            if c not in props:
                props.append(c)
    props.append('C13')
    assert subprocess.run(['git', '-C', '/repo', 'status', '--porcelain'], capture_output=True, text=True).stdout == '', 'repo dirty'
    r = subprocess.run(['git', '-C', '/repo', 'apply', patch])
    if r.returncode:
        print(name, 'PATCH DOES NOT APPLY'); bad += 1; continue
    res = {}
    try:
        for c in props:
            env = dict(os.environ, VERIF_SEED=os.environ.get('VERIF_SEED', '21'))
            r = subprocess.run([V + '/bin/check', c, 'quick'], capture_output=True, text=True, env=env)
            lines = [l for l in (r.stdout + r.stderr).splitlines() if l.startswith(('VIOLATION', 'KNOWN', 'check ', 'UNCONF')) or 'UNSUPPORTED' in l or 'error' in l.lower()]
            res[c] = {'exit': r.returncode, 'lines': lines[-6:]}
            print(name, c, 'exit', r.returncode, '' if r.returncode == 0 else lines[-6:], flush=True)
            if r.returncode:
                bad += 1
    finally:
        subprocess.run(['git', '-C', '/repo', 'checkout', '--', '.']); subprocess.run(['git', '-C', '/repo', 'clean', '-fdq'])
    json.dump({'packages': pkgs, 'checks': res}, open(d + 'result.json', 'w'), indent=1)
print('ALARMS' if bad else 'ALL SILENT', bad)
sys.exit(1 if bad else 0)
