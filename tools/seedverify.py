#!/usr/bin/env python3
"""Confirms a seeded change produced by a sub-agent and runs the checks against it.
usage: seedverify.py <prop> <seeddir> <pkgdir> <name> [extra props...]
 1. scratch worktree of /repo: apply patch, build, run the repository's tests (must pass),
    run the demonstration (must fail); revert, run the demonstration (must pass)
 2. apply the patch to /repo, run bin/check <prop> quick (and extra props), undo
 3. store /verif/seeded/<name>/{patch.diff,demo*,notes.md,meta.json}"""
import json, os, shutil, subprocess, sys, time, glob
ENV=dict(os.environ, GOFLAGS='-mod=mod', GOPROXY='off', GOSUMDB='off', GOTOOLCHAIN='local')
def sh(cmd, cwd=None, timeout=1200):
    p=subprocess.run(cmd, cwd=cwd, env=ENV, shell=True, capture_output=True, text=True, timeout=timeout)
    return p.returncode, (p.stdout+p.stderr)
prop, seeddir, pkg, name = sys.argv[1:5]
props=[prop]+sys.argv[5:]
patch=os.path.join(seeddir,'patch.diff')
wt='/tmp/sv-'+name
sh('git -C /repo worktree remove --force '+wt)
rc,out=sh('git -C /repo worktree add -q '+wt+' HEAD'); assert rc==0, out
meta={'property':prop,'name':name,'checked_at':time.strftime('%Y-%m-%d %H:%M:%S')}
rc,out=sh('git apply '+patch, cwd=wt); meta['patch_applies']=rc==0
rc,out=sh('go build ./...', cwd=wt); meta['builds']=rc==0
rc,out=sh('go test -count=1 -timeout 300s ./...', cwd=wt); meta['existing_tests_pass_with_change']=rc==0
if rc!=0: meta['existing_tests_output']=out[-1500:]
demos=glob.glob(os.path.join(seeddir,'demo*_test.go'))
for d in demos: shutil.copy(d, os.path.join(wt,pkg,'zz_'+os.path.basename(d)))
RACE='-race ' if os.environ.get('SEED_RACE') else ''
rc,out=sh('go test '+RACE+'-count=1 -timeout 180s -run "Seed|seed|Demo|demo" ./'+pkg+'/', cwd=wt); meta['demo_fails_with_change']=rc!=0
meta['demo_run_with_race_detector']=bool(RACE)
meta['demo_output_with_change']=out[-1200:]
sh('git apply -R '+patch, cwd=wt)
rc,out=sh('go test '+RACE+'-count=1 -timeout 180s -run "Seed|seed|Demo|demo" ./'+pkg+'/', cwd=wt); meta['demo_passes_without_change']=rc==0
if rc!=0: meta['demo_output_without_change']=out[-1200:]
sh('git -C /repo worktree remove --force '+wt)
# run the checks against /repo with the change applied
rc,out=sh('git -C /repo status --porcelain'); assert out.strip()=='', 'repo not clean: '+out
rc,out=sh('git -C /repo apply '+patch); assert rc==0, out
meta['checks']={}
try:
    for p in props:
        t0=time.time()
        rc,out=sh('/verif/bin/check %s quick'%p, cwd='/verif')
        viol=[l.strip() for l in out.split('\n') if l.startswith('  oracle=')]
        meta['checks'][p]={'exit':rc,'verdict':{0:'MISSED',1:'caught',2:'infra'}.get(rc,str(rc)),'wall_s':round(time.time()-t0,1),'oracles':[v[:220] for v in viol[:6]], 'tail':out.strip().split('\n')[-1][:200]}
finally:
    sh('git -C /repo checkout -- . && git -C /repo clean -fdq')
rc,out=sh('git -C /repo status --porcelain'); assert out.strip()=='', out
dst='/verif/seeded/'+name
os.makedirs(dst,exist_ok=True)
shutil.copy(patch, dst)
for d in demos: shutil.copy(d,dst)
if os.path.exists(os.path.join(seeddir,'notes.md')): shutil.copy(os.path.join(seeddir,'notes.md'),dst)
meta['demo_package']=pkg
meta['what_i_ran']=['scratch worktree: git apply; go build ./...; go test ./...; demo with change (expect fail); git apply -R; demo (expect pass)','/repo: git apply; bin/check <prop> quick; git checkout -- .']
json.dump(meta,open(os.path.join(dst,'meta.json'),'w'),indent=1)
print(json.dumps({k:v for k,v in meta.items() if k not in ('demo_output_with_change',)},indent=1))
