#!/usr/bin/env python3
"""Generates /verif/mutants/M*.patch: deliberate property-breaking edits of /repo (each one
string replacement), used by `bin/check selftest mutants` to measure the sensitivity of the checks."""
import os, shutil, subprocess, sys
REPO='/repo'
M=[
 ("M01-csync-mutex-double-release","C01","csync/mutex.go","""		if pre != 1 {
			return
		}

		// unlock""","""		if pre == 0 {
			return
		}

		// unlock"""),
 ("M02-csync-trylock-read-ignores-writer","C01","csync/rwmutex.go","""		} else if !m.writing && m.writeWaiting == 0 {
			m.nreaders++
		} else {
			unlocked.Store(true)
		}""","""		} else if m.writeWaiting == 0 {
			m.nreaders++
		} else {
			unlocked.Store(true)
		}"""),
 ("M03-csync-rwmutex-cancel-without-release","C02","csync/rwmutex.go","""		case <-ctx.Done():
			release()
			return nil, context.Canceled""","""		case <-ctx.Done():
			return nil, context.Canceled"""),
 ("M04-broadcast-wait-channel-outside-cs","C03","broadcast/broadcast.go","""			done, err = cb(broadcast, getWaitCh)
			if !done && err == nil {
				waitCh = getWaitCh()
			}
		})

		if done || err != nil {
			return err
		}
""","""			done, err = cb(broadcast, getWaitCh)
		})

		if done || err != nil {
			return err
		}
		c.HoldLock(func(broadcast func(), getWaitCh func() <-chan struct{}) {
			waitCh = getWaitCh()
		})
"""),
 ("M05-broadcast-closed-channel-kept","C03","broadcast/broadcast.go","""		close(c.ch)
		c.ch = nil""","""		close(c.ch)
		c.ch = make(chan struct{})
		close(c.ch)"""),
 ("M06-refcount-release-before-clear","C08","refcount/refcount.go","""func (r *RefCount[T]) clearResolvedState() {
	if r.resolved {""","""func (r *RefCount[T]) clearResolvedState() {
	if r.valueRel != nil {
		r.valueRel()
		r.valueRel = nil
	}
	if r.resolved {"""),
 ("M07-refcount-stale-result-leaked","C08","refcount/refcount.go","""	if r.nonce != nonce {
		if valRel != nil {
			defer valRel()
		}
		return
	}""","""	if r.nonce != nonce {
		return
	}"""),
 ("M08-refcount-released-dropped-when-contended","C09","refcount/refcount.go","""		} else {
			go resolveAfterRelease(true)
		}""","""		}"""),
 ("M09-refcount-access-ignores-nonce","C10","refcount/refcount.go","""			if sameNonce {
				return cbErr
			}""","""			if sameNonce || cbErr == nil {
				return cbErr
			}"""),
 ("M10-lifo-pop-store-instead-of-cas","C12","cqueue/lifo.go","""		if q.top.CompareAndSwap(oldTop, next) {
			return oldTop.value
		}""","""		q.top.Store(next)
		return oldTop.value"""),
 ("M11-lifo-push-no-retry","C12","cqueue/lifo.go","""		if q.top.CompareAndSwap(oldTop, newNode) {
			break
		}""","""		q.top.CompareAndSwap(oldTop, newNode)
		break"""),
 ("M12-ccontainer-setvalue-no-broadcast","C15","ccontainer/ccontainer.go","""		if !c.compare(c.val, val) {
			c.val = val
			broadcast()
		}
	})
}

// SwapValue""","""		if !c.compare(c.val, val) {
			c.val = val
		}
	})
}

// SwapValue"""),
 ("M13-ccontainer-wait-channel-after-sample","C15","ccontainer/ccontainer.go","""			val = c.val
			wake = getWaitCh()
		})
		if valid != nil {""","""			val = c.val
		})
		c.bcast.HoldLock(func(broadcast func(), getWaitCh func() <-chan struct{}) {
			wake = getWaitCh()
		})
		if valid != nil {"""),
 ("M14-once-failure-not-cleared","C16","promise/once.go","""					if o.prom == prom {
						o.prom = nil
					}""","""					if o.prom != prom {
						o.prom = nil
					}"""),
 ("M15-memo-non-atomic-start","C16","memo/memo.go","""		if !started.Swap(true) {""","""		if !started.Load() {
			started.Store(true)"""),
 ("M16-ccall-canceled-hides-real-error","C17","ccall/ccall.go","""			if err != nil && (exitErr == nil || exitErr == context.Canceled) {""","""			if err != nil && exitErr == nil {"""),
 ("M17-conc-limit-off-by-one","C18","conc/queue.go","""				if s.maxConcurrency <= 0 || s.running < s.maxConcurrency {""","""				if s.maxConcurrency <= 0 || s.running <= s.maxConcurrency {"""),
 ("M18-conc-retire-without-broadcast","C18","conc/queue.go","""			if !jobOk {
				s.running--
				broadcast()
			} else {""","""			if !jobOk {
				s.running--
			} else {"""),
 ("M19-routine-rerun-after-success","C14","routine/routine.go","""	if (!forceRestart && r.success) || r.routine == nil {
		return
	}
	if !forceRestart && r.ctx != nil && !r.exited && r.ctx.Err() == nil {
		// routine is still running
		return
	}
	r.stop()""","""	if r.routine == nil {
		return
	}
	if !forceRestart && r.ctx != nil && !r.exited && r.ctx.Err() == nil {
		// routine is still running
		return
	}
	r.stop()"""),
 ("M20-routine-backoff-not-reset","C14","routine/routine.go","""				if r.success {
					r.r.retryBo.Reset()
				} else if r.r.routine == r {""","""				if r.success {
				} else if r.r.routine == r {"""),
 ("M21-iocloser-close-func-kept","C20","iocloser/read-closer.go","""	w.rd = nil
	w.close = nil""","""	w.rd = nil"""),
 ("M22-iosizer-counts-buffer-length","C20","iosizer/iosizer.go","""	n, err = s.wtr.Write(p)
	if n > 0 && n <= math.MaxUint32 {
		s.total.Add(uint64(n))
	}""","""	n, err = s.wtr.Write(p)
	if n > 0 && n <= math.MaxUint32 {
		s.total.Add(uint64(len(p)))
	}"""),
 ("M23-ioseek-failed-seek-moves","C20","ioseek/reader-at-seeker.go","""	if newOffset > r.size {
		return 0, io.EOF
	}""","""	if newOffset > r.size {
		r.offset = r.size
		return 0, io.EOF
	}"""),
 ("M24-unique-duplicate-in-setvalues","C20","unique/keyedlist.go","""	for _, v := range vals {
		k := l.getKey(v)
		delete(notSeen, k)
		existing, ok := l.vals[k]
		if ok {
			// changed
			if !l.cmp(k, v, existing) {
				l.vals[k] = v
				l.changed(k, v, false, false)
			}
		} else {""","""	for _, v := range vals {
		k := l.getKey(v)
		existing, ok := l.vals[k]
		if ok {
			// changed
			if !l.cmp(k, v, existing) {
				delete(notSeen, k)
				l.vals[k] = v
				l.changed(k, v, false, false)
			}
		} else {"""),
 ("M25-keyedref-release-not-idempotent","C06","keyed/keyed-refcount.go","""	if k.rel.Swap(true) {
		return
	}
	k.rc.mtx.Lock()
	refs := k.rc.refs[k.key]
	for i := 0; i < len(refs); i++ {
		if refs[i] == k {""","""	k.rel.Store(true)
	k.rc.mtx.Lock()
	refs := k.rc.refs[k.key]
	for i := 0; i < len(refs); i++ {
		if refs[i] == k || i == 0 {"""),
 ("M26-keyed-remove-keeps-context","C07","keyed/routine.go","""	removeNow := func() {
		if r.ctxCancel != nil {
			r.ctxCancel()
		}""","""	removeNow := func() {
		if r.ctxCancel != nil && r.deferRemove != nil {
			r.ctxCancel()
		}"""),
 ("M27-routine-setcontext-keeps-old-instance","C05","routine/routine.go","""		rr.stop()
		if rr.err == nil || restart {
			if ctx != nil {
				rr.start(ctx, rr.exitedCh, false)
			}
		}""","""		if ctx == nil || restart {
			rr.stop()
		}
		if rr.err == nil || restart {
			if ctx != nil {
				rr.start(ctx, rr.exitedCh, false)
			}
		}"""),
 ("M28-routine-restart-does-not-wait","C04","routine/routine.go","""	prevExitedCh := r.exitedCh
	r.exitedCh = nil
	r.start(k.ctx, prevExitedCh, true)""","""	r.exitedCh = nil
	r.start(k.ctx, nil, true)"""),
 ("M29-promise-publish-before-write","C11 C13","promise/promise.go","""	p.result = &val
	p.err = err
	close(p.done)
	return true""","""	close(p.done)
	p.result = &val
	p.err = err
	return true"""),
 ("M30-ccontainer-getvalue-unlocked","C13","ccontainer/ccontainer.go","""	var val T
	c.bcast.HoldLock(func(broadcast func(), getWaitCh func() <-chan struct{}) {
		val = c.val
	})
	return val
}""","""	return c.val
}"""),
 ("M31-conc-job-lost-on-race","C18","conc/queue.go","""		job, jobOk := s.jobQueue.Pop()
		if !jobOk {
			break
		}
		s.jobQueueSize--
		s.running++
		dirty = true
		go s.executeJob(job)""","""		job, jobOk := s.jobQueue.Pop()
		if !jobOk {
			break
		}
		s.jobQueueSize--
		s.running++
		dirty = true
		if s.jobQueueSize%2 == 0 {
			go s.executeJob(job)
		} else {
			go s.executeJob(nil)
		}"""),
 ("M32-keyed-delayed-removal-not-cancelled-by-setkey","C06","keyed/keyed.go","""		if v.deferRemove != nil {
			// cancel removing this key
			_ = v.deferRemove.Stop()
			v.deferRemove = nil
		}
	}
	if !existed || start {""","""		if v.deferRemove != nil && start {
			// cancel removing this key
			_ = v.deferRemove.Stop()
			v.deferRemove = nil
		}
	}
	if !existed || start {"""),
 ("M33-keyed-getkey-leaks-lock-on-miss","C06","keyed/keyed.go","""func (k *Keyed[K, V]) GetKey(key K) (V, bool) {
	k.mtx.Lock()
	defer k.mtx.Unlock()

	v, existed := k.routines[key]
	if !existed {
		var empty V
		return empty, false
	}

	return v.data, true
}""","""func (k *Keyed[K, V]) GetKey(key K) (V, bool) {
	k.mtx.Lock()

	v, existed := k.routines[key]
	if !existed {
		var empty V
		return empty, false
	}

	k.mtx.Unlock()
	return v.data, true
}"""),
 ("M34-routine-waitexited-misses-exit-broadcast","C14","routine/routine.go","""			for i := len(r.r.exitedCbs) - 1; i >= 0; i-- {
				// run after unlocking bcast
				defer r.r.exitedCbs[i](err)
			}
			broadcast()
		}
	})
}""","""			for i := len(r.r.exitedCbs) - 1; i >= 0; i-- {
				// run after unlocking bcast
				defer r.r.exitedCbs[i](err)
			}
			if r.r.retryBo != nil {
				broadcast()
			}
		}
	})
}"""),
 ("M35-routine-later-start-forgets-chain","C04","routine/routine.go","""		r.exitedCh = prevExitedCh
		k.routine = r""","""		k.routine = r"""),
 ("M36-routine-setroutine-nil-forgets-chain","C04","routine/routine.go","""		k.removedExitedCh = prevExitedCh
		if wasReset {""","""		if wasReset {"""),
 ("M37-keyed-reset-forgets-chain","C07","keyed/keyed.go","""	v.exitedCh = prevExitedCh
	k.routines[key] = v""","""	k.routines[key] = v"""),
 ("M38-promise-container-await-always-retries-on-canceled","C11","promise/container.go","""		val, valErr := prom.AwaitWithCancelCh(ctx, waitCh)
		if valErr == context.Canceled && ctx.Err() == nil && isClosed(waitCh) {""","""		val, valErr := prom.AwaitWithCancelCh(ctx, waitCh)
		if valErr == context.Canceled && ctx.Err() == nil {"""),
 ("M40-ccall-counts-nil-functions-as-started","C17","ccall/ccall.go","""			if fn == nil {
				continue
			}
			running++
			started++""","""			started++
			if fn == nil {
				continue
			}
			running++"""),
 ("M42-csync-writer-cancel-broadcast-wrong-condition","C02","csync/rwmutex.go","""					if m.writeWaiting == 0 {
						broadcast()
					}""","""					if m.writeWaiting > 0 {
						broadcast()
					}"""),
 ("M44-state-getrunning-outside-inner-lock","C13","routine/state.go","""			rcBroadcast()
			broadcast()
		})
		running = s.rc.getRunningLocked()
	})""","""			rcBroadcast()
			broadcast()
		})
	})
	running = s.rc.getRunningLocked()"""),
]
def main():
    out='/verif/mutants'
    os.makedirs(out,exist_ok=True)
    for name,props,path,old,new in M:
        src=open(os.path.join(REPO,path)).read()
        if src.count(old)!=1:
            print("SKIP (pattern not found exactly once):",name, src.count(old)); continue
        tmp='/var/tmp/mutgen'
        a=os.path.join(tmp,'a',path); b=os.path.join(tmp,'b',path)
        for f in (a,b): os.makedirs(os.path.dirname(f),exist_ok=True)
        open(a,'w').write(src); open(b,'w').write(src.replace(old,new))
        d=subprocess.run(['diff','-u','--label','a/'+path,'--label','b/'+path,a,b],capture_output=True,text=True).stdout
        open(os.path.join(out,name+'.patch'),'w').write("# properties: %s\n# deliberate mutation (sensitivity test)\n%s"%(props,d))
        print("ok",name)
    shutil.rmtree('/var/tmp/mutgen',ignore_errors=True)
main()
