#!/usr/bin/env python3
"""Regression over the whole seeded corpus after harness/runtime changes: for every /verif/seeded/<name>/
apply patch.diff to /repo, run the quick check of its property, undo; every change must still be caught.
usage: seedregress.py [name-substring]; records meta['regression'] and prints the ones not caught."""
import json, os, subprocess, sys, glob, time, re
V='/verif'
pat=sys.argv[1] if len(sys.argv)>1 else ''
def sh(cmd, **kw): return subprocess.run(cmd, shell=True, capture_output=True, text=True, **kw)
bad=[]
n=0
for d in sorted(glob.glob(V+'/seeded/*/')):
    name=os.path.basename(d.rstrip('/'))
    if pat not in name or not os.path.exists(d+'meta.json'): continue
    m=json.load(open(d+'meta.json'))
    assert sh('git -C /repo status --porcelain').stdout=='', 'repo dirty'
    r=sh('git -C /repo apply '+d+'patch.diff')
    if r.returncode: bad.append((name,'NOAPPLY')); print(name,'PATCH DOES NOT APPLY',flush=True); continue
    reg={}
    try:
        for prop in m['checks']:
            r=sh(V+'/bin/check %s quick'%prop, env=dict(os.environ, VERIF_SEED=os.environ.get('VERIF_SEED','33')))
            out=r.stdout+r.stderr
            oracles=[re.sub(r' seed=.*','',l.strip()) for l in out.split('\n') if l.startswith('  oracle=')]
            verdict={0:'MISSED',1:'caught',2:'infra'}.get(r.returncode,str(r.returncode))
            reg[prop]={'verdict':verdict,'oracles':oracles[:4],'at':time.strftime('%Y-%m-%d %H:%M')}
            n+=1
            if verdict!='caught': bad.append((name,prop,verdict))
            print(name,prop,verdict,oracles[:2],flush=True)
    finally:
        sh('git -C /repo checkout -- . && git -C /repo clean -fdq')
    m['regression']=reg
    json.dump(m,open(d+'meta.json','w'),indent=1)
print('REGRESSION',n,'checks,',len(bad),'not caught:',bad)
sys.exit(1 if bad else 0)
