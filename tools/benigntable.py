#!/usr/bin/env python3
"""Writes /verif/benign/README.md from the result.json files written by tools/benignverify.py."""
import json, glob, os
rows=[]
for d in sorted(glob.glob('/verif/benign/*/')):
    name=os.path.basename(d.rstrip('/'))
    if not os.path.exists(d+'result.json'): continue
    r=json.load(open(d+'result.json'))
    first=''
    if os.path.exists(d+'notes.md'):
        for l in open(d+'notes.md'):
            l=l.strip().lstrip('#').strip()
            if l: first=l[:110]; break
    checks=' '.join('%s:%s'%(c,'silent' if v['exit']==0 else 'EXIT %d'%v['exit']) for c,v in r['checks'].items())
    rows.append((name,' '.join(r['packages']),checks,first))
with open('/verif/benign/README.md','w') as f:
    f.write('# Behaviour-preserving changes (written by sub-agents that were told what must not break)\n\n')
    f.write('Each directory: patch.diff, the author\'s notes.md (why every property still holds) and result.json.\n')
    f.write('`tools/benignverify.py` applies the patch to /repo, runs the quick check of every property anchored in the touched packages plus C13, and undoes the patch. Every check must stay silent (exit 0, no VIOLATION line).\n\n')
    f.write('| change | packages | quick checks | first line of the notes |\n|---|---|---|---|\n')
    for r in rows: f.write('| '+' | '.join(x.replace('|','\\|') for x in r)+' |\n')
    bad=sum(1 for r in rows if 'EXIT' in r[2])
    f.write('\n%d changes, %d with an alarm.\n'%(len(rows),bad))
print(len(rows),'rows')
