#!/usr/bin/env python3
"""Regenerates /verif/MANIFEST.json from the table below (keeps it consistent with cmd/check)."""
import json
props=[json.loads(l) for l in open('/verif/properties.jsonl')]
claims={
 'C01':("csync","step invariant (exclusion counters), TryLock probes against the exact holder set at quiescent points"),
 'C02':("csync","quiescence oracle (grantable waiter blocked = violation), return-value checks, writer-preference history rule"),
 'C03':("bcast","in-critical-section channel/generation invariant, Wait return rules, quiescence oracle, spin detection"),
 'C04':("routine","step invariant (active instances), waitReturn channels probed after every scheduler step"),
 'C05':("routine","checks at the return of every superseding call, quiescence oracle on the surviving instance (context tag, state)"),
 'C06':("keyedset","reference model of the key set compared per call and at settle points, deadline intervals, stalled-timer variant, owner-side cancellation of the container context"),
 'C07':("keyedrun+keyedset","per-incarnation instance exclusion, cancellation on removal, retry obligation at quiescence after virtual time passed"),
 'C08':("refcount","exactly-once release counters, in-release-function checks, quiescence leak check, final drain"),
 'C09':("refcount","resolver exclusion, panic/deadlock detection, quiescence oracle on resolved/delivered state, released() obligations"),
 'C10':("refcount","consumer-held reference rules, released-callback tallies, Access invocation history and quiescence rules"),
 'C11':("promise","winner uniqueness, returned pair must be a current promise's result (interval history), quiescence oracle, spin detection"),
 'C12':("stack","porcupine linearizability check of the recorded history against a sequential stack/deque model, element conservation"),
 'C13':("all scenarios, -race","Go race detector inside the deterministic simulation (spin parker: scheduling creates no happens-before edge); reports kept iff an access's innermost non-runtime frame is library code"),
 'C14':("routine14","single-driver reference machine for exit status, restart rules, backoff timing/reset, WaitExited results and exit callbacks"),
 'C15':("ccont","atomicity of SwapValue (permutation/final value), values returned must have been held (interval history), quiescence oracle, spin detection"),
 'C16':("once","one call in flight, no call after success, error provenance, quiescence oracle, late callers after success/failure; MemoizeFunc single call"),
 'C17':("ccall","result checked against the recorded outcomes and completion stamps of all functions, quiescence oracle"),
 'C18':("conc","running<=limit invariant, exactly-once tally, FIFO for limit 1, count pairs, WaitIdle rule, quiescence oracle"),
 'C20':("io","reference models under injected stream faults (short counts, errors, EOF, external/double close) with concurrent callers; ioseek and unique are sequential model checks"),
}
checks=[]
for p in props:
    pid=p['id']
    if pid not in claims: continue
    scen,orc=claims[pid]
    checks.append({
     "property_id":pid,
     "quick_cmd":f"bin/check {pid} quick",
     "thorough_cmd":f"bin/check {pid} thorough",
     "evidence_file":f"/verif/evidence/{pid}.json",
     "replay_cmd_template":"bin/check replay {path}",
     "engine":"simrt",
     "level_claimed":{"category":"exploration","text":f"seeded deterministic simulation (scenario {scen}) of the instrumented current /repo tree under a one-token scheduler with fault injection; oracle: {orc}. Sampling of schedules x faults x workloads: a clean batch is evidence, not proof.","design_ref":"DESIGN.md §8 "+pid},
     "level_note":"bounded actors/scripts/steps per run; interleavings at synchronisation-operation granularity under sequential consistency; the code run is a mechanical source instrumentation (simgen) of the current /repo tree, validated by the repository's own tests in passthrough mode; uninstrumented dependencies (context, cenkalti/backoff) contribute no scheduling points",
     "technique":"deterministic simulation with fault injection: seeded scheduler + virtual clock + quiescence/history oracles"+(" + porcupine linearizability" if pid=='C12' else "")+(" + race detector under the deterministic scheduler" if pid=='C13' else "")
    })
m={
 "version":1,
 "setup_cmd":"bin/setup",
 "hooks":{"guard":"none: no hooks in /repo. The checks instrument a scratch copy of the current working tree at check time (sim/simgen); the only build tags (verifsim_spin, verifsim_futex) live in /verif/sim and select the token parker of the simulation runtime","enable":"bin/check <id> instruments /repo into a scratch copy and builds the simulation worker against it (go build -modfile=<scratch>/go.mod; -race -tags verifsim_spin for C13)","baseline_off_cmd":"cd /repo && go test -vet=off -count=1 ./...","source_commits":[],"add_only":True},
 "engines":[{"name":"simrt","path":"/verif/sim","serves_properties":sorted(claims),"kind_free_text":"deterministic simulation: type-aware source instrumenter (simgen), cooperative one-token scheduler with virtual clock, seeded choice tape, strategies (walk/sticky/pct/starve), fault injection, shrinker and strict replayer (simrt, cmd/simworker, cmd/check), per-property scenario harnesses (harness/*)"}],
 "checks":checks,
 "not_applicable":[{"property_id":"C19","reason":"padding/commonprefix/prng are pure functions of their input: there is no schedule, clock, fault, interleaving or I/O partner for a simulator to control (chunk-independence of the prng reader is a deterministic function of the chunk-size list); the fitting technique is plain property-based input generation, which is outside this task's technique family (DESIGN.md §8 C19)"}],
 "notes":"Exit codes: 0 held on everything explored (KNOWN-FINDING lines possible), 1 violation (VIOLATION property=<id> replay=<path>; the replay file holds seed, minimised choice tape, plan and last events and is re-run with `bin/check replay <path>`), 2 infrastructure trouble (tree does not build, nondeterminism detected, replay diverged). VERIF_SEED selects the seed, VERIF_SECS overrides the per-check simulation budget (quick 10 s, C13 20 s; thorough 480 s). Genuine defects found and repaired are listed in known_findings.json and DESIGN.md §9."
}
json.dump(m,open('/verif/MANIFEST.json','w'),indent=1)
print(len(checks),'checks')
