#!/usr/bin/env python3
"""Sensitivity test: applies every /verif/mutants/*.patch (or those matching argv[1]) to a scratch
copy of /repo, checks that the tree still builds and whether the repository's own tests still pass,
then runs the quick check of each property the patch is expected to break. Writes RESULTS.md.
Usage: tools/mutants.py [substring] [--secs N] [--no-tests]"""
import glob, os, re, shutil, subprocess, sys, tempfile, time
ENV=dict(os.environ, GOFLAGS='-mod=mod', GOPROXY='off', GOSUMDB='off', GOTOOLCHAIN='local')
def sh(cmd, cwd=None, env=ENV, timeout=1800):
    p=subprocess.run(cmd, cwd=cwd, env=env, shell=isinstance(cmd,str), capture_output=True, text=True, timeout=timeout)
    return p.returncode, p.stdout+p.stderr
def main():
    argv=sys.argv[1:]
    secs='10'
    if '--secs' in argv:
        i=argv.index('--secs'); secs=argv[i+1]; del argv[i:i+2]
    args=[a for a in argv if not a.startswith('--')]
    pat=args[0] if args else ''
    notests='--no-tests' in sys.argv
    rows=[]
    for pf in sorted(glob.glob('/verif/mutants/*.patch')):
        name=os.path.basename(pf)[:-6]
        if pat and pat not in name: continue
        head=open(pf).read().split('\n',1)[0]
        props=re.sub(r'^# properties:','',head).split()
        tmp=tempfile.mkdtemp(prefix='verif-mut-', dir='/var/tmp')
        repo=os.path.join(tmp,'repo')
        shutil.copytree('/repo', repo, ignore=shutil.ignore_patterns('.git'))
        rc,out=sh(['patch','-p1','-s','-i',pf], cwd=repo)
        if rc!=0:
            rows.append((name,'-','patch does not apply','','')); shutil.rmtree(tmp); continue
        rc,out=sh('go build ./... ', cwd=repo)
        builds = rc==0
        tests='skipped'
        if builds and not notests:
            pkgs=' '.join(sorted(set('./'+l.split('/')[1] for l in open(pf) if l.startswith('+++ b/'))))
            rc,out=sh('go test -count=1 '+pkgs, cwd=repo)
            tests='pass' if rc==0 else 'FAIL'
        for prop in props:
            t0=time.time()
            rc,out=sh(['/verif/bin/check',prop,'quick'], env=dict(ENV, VERIF_REPO=repo, VERIF_SECS=secs))
            dt=time.time()-t0
            viol=[l for l in out.split('\n') if l.startswith('  oracle=')]
            verdict={0:'MISSED',1:'caught',2:'infra(2)'}.get(rc,'rc=%d'%rc)
            first=viol[0].strip()[:150] if viol else out.strip().split('\n')[-1][:150]
            rows.append((name,prop,verdict,'builds' if builds else 'NO BUILD', tests, '%.0fs'%dt, first))
            print(name,prop,verdict,tests,'%.0fs'%dt, first, flush=True)
        shutil.rmtree(tmp, ignore_errors=True)
    if not pat:
        with open('/verif/mutants/RESULTS.md','w') as f:
            f.write('# Sensitivity of the checks: deliberate property-breaking edits\n\n')
            f.write('R* = reverts of the `fix:` commits (the genuine defects found on the pinned tree); M* = hand-written mutations.\n')
            f.write('Each row: the quick check of the property, run against a scratch copy of /repo with the patch applied (VERIF_SECS=%s).\n\n'%secs)
            f.write('| patch | property | verdict | build | repo tests of touched pkgs | time | first violation |\n|---|---|---|---|---|---|---|\n')
            for r in rows: f.write('| '+' | '.join(str(x).replace('|','\\|') for x in r)+' |\n')
    missed=[r for r in rows if len(r)>2 and r[2]!='caught']
    print('TOTAL',len(rows),'missed/other',len(missed))
main()
